"""record scenarios in a separate process (used to vary the process time zone)"""
import json
import os
import sys
import time

sys.path.insert(0, os.path.dirname(os.path.abspath(__file__)))
time.tzset()
import checklib  # noqa: E402
from record import record  # noqa: E402

scs = [checklib.sc_from_json(d) for d in json.load(open(sys.argv[1]))]
json.dump([record(sc) for sc in scs], open(sys.argv[2], "w"))
