"""diagnostic: run one scenario of a property's family by id and print the final readings"""
import os, sys, random, time
os.environ.setdefault("TZ","UTC"); time.tzset()
sys.path.insert(0, os.path.dirname(os.path.abspath(__file__)))
import checklib, families
from record import Session
from streams import base_for
pid, sid = sys.argv[1], sys.argv[2]
seed=int(os.environ.get("VERIF_SEED","20261003"))
rng=random.Random(f"{pid}/{seed}")
scs=families.scenarios(pid,sys.argv[3] if len(sys.argv)>3 else "quick",rng)
sc=[s for s in scs if s["id"]==sid][0]
print([c.label() for c in sc["inds"]], sc.get("hex"), sc["prog"])
tfs=[c.timeframe for c in sc["inds"]]+[sc.get("hex",{}).get("timeframe")]
base=base_for([t for t in tfs if t])
ses=Session(sc, base)
for st in sc["prog"]:
    try: ses.run(st)
    except Exception as e:
        import traceback; traceback.print_exc(); break
for nm,cs in ses.managers():
    print("manager",nm)
    for i,c in enumerate(cs):
        print(i+1, (c.timestamp-base).total_seconds() if c.timestamp else None, c.open,c.high,c.low,c.close,c.volume, c.tag, c.indicators, c.sub_indicators)
