"""diagnostic: failing (kind, clause, exc) counts for a property's families"""
import os, sys, random, time, collections
os.environ.setdefault("TZ","UTC"); time.tzset()
sys.path.insert(0, os.path.dirname(os.path.abspath(__file__)))
import checklib, families
pid=sys.argv[1]; tier=sys.argv[2] if len(sys.argv)>2 else "quick"
seed=int(os.environ.get("VERIF_SEED","20261003"))
rng=random.Random(f"{pid}/{seed}")
scs=families.scenarios(pid,tier,rng)
traces,results,st=checklib.run_traces(pid,scs)
cnt=collections.Counter(); ex={}
for i,(sc,tr) in enumerate(zip(scs,traces)):
    for f in results[i]["fails"]:
        key=((sc["inds"][-1].kind if sc["inds"] else "list"), f[1], f[3] if f[1] in("exc","stage_err") else "", ",".join(sorted(checklib.props_of(f,tr,sc))))
        cnt[key]+=1; ex.setdefault(key,(sc["id"],f))
for k,v in sorted(cnt.items()): print(v,k,ex[k])
print("unchecked",sum(r["unch"] for r in results.values()),"ok",sum(r["nchk"] for r in results.values()))
