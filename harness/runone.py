"""diagnostic: run one scenario by id with a traceback on exceptions; print program"""
import os, sys, random, time, traceback
os.environ.setdefault("TZ","UTC"); time.tzset()
sys.path.insert(0, os.path.dirname(os.path.abspath(__file__)))
import checklib, families
from record import Session
from streams import base_for
pid, sid = sys.argv[1], sys.argv[2]
seed=int(os.environ.get("VERIF_SEED","20261003"))
rng=random.Random(f"{pid}/{seed}")
scs=families.scenarios(pid,"quick",rng)
sc=[s for s in scs if s["id"]==sid][0]
print([c.label() for c in sc["inds"]], [c.label() for c in sc.get("late",[])], sc.get("hex"))
tfs=[c.timeframe for c in sc["inds"]+sc.get("late",[])]+[sc.get("hex",{}).get("timeframe")]
base=base_for([t for t in tfs if t])
ses=Session(sc, base)
for i,st in enumerate(sc["prog"]):
    print(i+1, st if st[0]!="reads" else ("reads", len(st[1])))
    try: ses.run(st)
    except Exception as e:
        traceback.print_exc(); break
    print("   lens", [(n,len(cs)) for n,cs in ses.managers()])
