"""run every registered quick check under several seeds; report anything but exit 0"""
import json, os, subprocess, sys, time
seeds = [int(x) for x in sys.argv[1].split(",")] if len(sys.argv) > 1 else [1, 2, 3]
tier = sys.argv[2] if len(sys.argv) > 2 else "quick"
only = sys.argv[3].split(",") if len(sys.argv) > 3 else None
ROOT = os.path.dirname(os.path.dirname(os.path.abspath(__file__)))
m = json.load(open(os.path.join(ROOT, "MANIFEST.json")))
bad = 0
for seed in seeds:
    for c in m["checks"]:
        if only and c["property_id"] not in only:
            continue
        t0 = time.time()
        cmd = c["quick_cmd"] if tier == "quick" else c["thorough_cmd"]
        p = subprocess.run(cmd, shell=True, cwd=ROOT, env=dict(os.environ, VERIF_SEED=str(seed)),
                           capture_output=True, text=True)
        tail = p.stdout.strip().splitlines()[-1] if p.stdout.strip() else ""
        print(f"seed={seed} {c['property_id']} rc={p.returncode} {time.time()-t0:.0f}s {tail}", flush=True)
        if p.returncode != 0:
            bad += 1
            print(p.stdout[-3000:], p.stderr[-2000:], flush=True)
print("non-zero exits:", bad)
