"""Run scenarios against the library in /repo's working tree and record traces.

A scenario is a dict:
  {"id", "fam", "obj": "ind"|"hex", "inds": [IndCfg], "late": [IndCfg added by 'add' steps],
   "hex": {timeframe, fill, lifespan, ctype}, "stream": [(ts, o, h, l, c, v)], "prog": [steps],
   "twins": [...], "form": "candle"|"dict"|"list", "member_forms": [...], "work": bool}
steps:
  ("new", k) | ("append", a, b) | ("collapse",) | ("calculate", name) | ("purge", name) |
  ("recalculate", name) | ("calculate_index", name, idx) | ("add", i) | ("remove", name) |
  ("reads", [read, ...])
reads: ("ind.reading", ind_no, name, idx) ... see do_read().
The recorder only drives the public API and projects state (proj.py); it decides nothing.
"""
from __future__ import annotations

import copy
import os
import sys
from datetime import timedelta

sys.path.insert(0, os.environ.get("HEXITAL_REPO", "/repo"))  # /repo unless a run snapshot is given

from catalog import ref  # noqa: E402
from proj import candles as proj_candles  # noqa: E402
from proj import delta, val  # noqa: E402
import proj as proj_mod  # noqa: E402
from streams import base_for, tf_seconds  # noqa: E402

NOIDX = 999999


PRE = None      # form "candle_pre": the stream's Candle objects after another consumer converted them in place


def preconvert(stream, base):
    """the caller's Candle objects as they are after a Heikin-Ashi consumer WITHOUT a timeframe has worked
    on them (such a consumer works on the caller's objects themselves): Heikin-Ashi values, the tag and
    the saved original values travel with the objects to whoever is fed next"""
    from hexital.candlesticks import CANDLESTICK_MAP
    from hexital.core.candle_manager import CandleManager

    objs = mk_candles(stream, base, 1, len(stream), "candle")
    CandleManager(objs, candlestick_type=CANDLESTICK_MAP["HA"]())
    return objs


def mk_candles(stream, base, a, b, form="candle"):
    """fresh input objects for stream[a-1:b] (1-based inclusive)"""
    from hexital import Candle

    if form == "candle_pre":
        return copy.deepcopy(PRE[a - 1:b])
    out = []
    aware = None
    if form.startswith("aware"):
        # timezone-aware timestamps (fixed offset given in minutes after the colon)
        from datetime import timezone

        aware = timezone(timedelta(minutes=int(form.split(":")[1])))
        form = "candle"
    for ts, o, h, l, c, v in stream[a - 1:b]:
        t = base + timedelta(seconds=ts) if ts is not None else None
        if aware is not None and t is not None:
            t = t.replace(tzinfo=timezone.utc).astimezone(aware)
        if form == "candle_fold":
            # naive stamps flagged fold=1 (what datetime.fromtimestamp hands out during a repeated hour, and what
            # survives pickling): for a naive wall-clock stamp the flag carries no information
            out.append(Candle(open=o, high=h, low=l, close=c, volume=v,
                              timestamp=t.replace(fold=1) if t is not None else None))
        elif form == "candle":
            out.append(Candle(open=o, high=h, low=l, close=c, volume=v, timestamp=t))
        elif form == "dict":
            out.append({"open": o, "high": h, "low": l, "close": c, "volume": v, "timestamp": t})
        elif form == "dict_cap":     # capitalised keys, as data frames export them
            out.append({"Open": o, "High": h, "Low": l, "Close": c, "Volume": v, "Timestamp": t})
        elif form == "dict_mix":     # a data-frame row (capitalised prices) with the stamp added by the caller
            out.append({"Open": o, "High": h, "Low": l, "Close": c, "Volume": v, "timestamp": t})
        elif form == "dict_mix2":    # ... or the other way round: every field is looked up on its own
            out.append({"open": o, "high": h, "low": l, "close": c, "Volume": v, "Timestamp": t})
        elif form == "dict_iso":     # timestamps as ISO strings without offset (JSON input)
            out.append({"open": o, "high": h, "low": l, "close": c, "volume": v,
                        "timestamp": t.isoformat() if t is not None else None})
        elif form == "candle_iso":
            out.append(Candle(open=o, high=h, low=l, close=c, volume=v,
                              timestamp=t.isoformat() if t is not None else None))
        elif form == "list_ts_last":
            out.append([o, h, l, c, v, t] if t is not None else [o, h, l, c, v])
        else:
            out.append([t, o, h, l, c, v] if t is not None else [o, h, l, c, v])
    return out


def flat_args(data, base):
    """caller-owned containers as a flat list of integers (for the args-unchanged clause)"""
    from proj import frac, ts_of

    out = []
    items = data if isinstance(data, list) and data and isinstance(data[0], (list, dict)) else [data]
    for it in items:
        if isinstance(it, dict):
            out.append(len(it))
            for k in ("open", "high", "low", "close", "volume"):
                n, d, _ = frac(it.get(k, it.get(k.capitalize(), 0)))
                out += [n, d]
            tsv = it.get("timestamp", it.get("Timestamp"))
            # the kind of value the caller put there is part of "unchanged" (a string must stay a string)
            out.append(2 if isinstance(tsv, str) else 1 if tsv is not None else 0)
            out.append(sum(1 for k in it if str(k).lower() == "timestamp"))
            if isinstance(tsv, str):
                from datetime import datetime as _dt

                tsv = _dt.fromisoformat(tsv)
            out.append(ts_of(tsv, base))
        elif isinstance(it, list):
            out.append(len(it))
            for x in it:
                if isinstance(x, (int, float)):
                    n, d, _ = frac(x)
                    out += [n, d]
                else:
                    out.append(ts_of(x, base))
    return out


def raw_json(stream, readings=None):
    from proj import NO_TS, rat

    out = []
    for pos, (ts, o, h, l, c, v) in enumerate(stream):
        x = 1
        d = {}
        for k, val_ in (("o", o), ("h", h), ("l", l), ("c", c), ("v", v)):
            r, e = rat(val_)
            d[k] = r
            x &= e
        rd = readings[pos] if readings else {}
        d.update({"x": x, "ts": NO_TS if ts is None else int(ts * proj_mod.SUB), "tag": "", "cl": [],
                  "ik": list(rd.keys()), "iv": [val(v_) for v_ in rd.values()], "sk": [], "sv": []})
        out.append(d)
    return out


def mgr_cfg(name, tf, fill, life, ha, src=0, late=0):
    return {"nm": name, "tf": tf_seconds(tf) * proj_mod.SUB, "fill": bool(fill),
            "life": -1 if life is None else int(round(life.total_seconds() * proj_mod.SUB)), "ha": bool(ha),
            "src": src, "late": late}


class Session:
    """one object under test"""

    def __init__(self, sc, base):
        self.sc, self.base = sc, base
        self.obj = None
        self.cfgs = []        # IndCfg of every indicator ever registered, in order
        self.live = {}        # cfg index -> live name
        self.active = []      # cfg indices currently registered
        self.args = ([], [])

    # -- construction ------------------------------------------------------
    def _member(self, cfg, form):
        if form == "obj":
            return cfg.build(standalone=False)
        if form == "dict" and cfg.kind == "Amorph" and cfg.extra.get("_args_split"):
            # the way a caller with several similar members writes them: ONE dict with the arguments they
            # have in common, handed to each member as `args`, the rest as plain keywords
            if not hasattr(self, "_common_args"):
                self._common_args = {}
            common = self._common_args.setdefault(cfg.inp, {"indicator": cfg.inp})
            d = cfg.as_dict()
            rest = {k: v for k, v in d.pop("args").items() if k != "indicator"}
            d.update(rest)
            d["args"] = common
            return d
        if form == "dict":
            return cfg.as_dict()
        if form == "used":
            # an indicator object that has already worked on a candle list of its own (warmed up
            # standalone) and is then handed to a Hexital: from then on it works on the Hexital's candles
            warm = mk_candles(self.sc["stream"], self.base, 1, min(6, len(self.sc["stream"])), "candle")
            ind = cfg.build(candles=warm, standalone=False)
            ind.calculate()
            return ind
        return cfg.build(standalone=False).settings      # settings round trip

    def new(self, k):
        sc = self.sc
        form0 = sc.get("form", "candle")
        cands = mk_candles(sc["stream"], self.base, 1, k,
                           form0 if form0.startswith("aware") or form0 in ("candle_fold", "candle_pre") else "candle")
        self.cfgs = list(sc["inds"]) + list(sc.get("late", []))
        if sc["obj"] == "mgr":
            from hexital.core.candle_manager import CandleManager

            m = sc["mgr"]
            tf = m.get("tf")
            if tf and m.get("tf_form") == "lower":
                tf = tf.lower()
            elif tf and m.get("tf_form") == "enum":
                from hexital import TimeFrame

                tf = next((x for x in TimeFrame if x.value == tf.upper()), tf)
            ctype = None
            if m.get("ha"):
                from hexital.candlesticks import CANDLESTICK_MAP

                ctype = CANDLESTICK_MAP["HA"]()
            self.obj = CandleManager(cands, candles_lifespan=m.get("life"), timeframe=tf,
                                     timeframe_fill=bool(m.get("fill")), candlestick_type=ctype)
            self.live, self.active = {}, []
        elif sc["obj"] == "list":
            # a bare list of candles carrying the given readings (analysis functions)
            for cnd, rd in zip(cands, sc["readings"][:k]):
                cnd.indicators = dict(rd)
            self.obj = cands
            self.live, self.active = {}, []
        elif sc["obj"] == "ind":
            self.obj = sc["inds"][0].build(candles=cands)
            self.live = {0: self.obj.name}
            self.active = [0]
        else:
            from hexital import Hexital

            hx = sc.get("hex", {})
            forms = sc.get("member_forms", ["obj"] * len(sc["inds"]))
            members = [self._member(c, f) for c, f in zip(sc["inds"], forms)]
            if hx.get("as_class_attrs") and (hx.get("timeframe") or hx.get("ctype")):
                # the documented other way of configuring a strategy: a subclass that sets the timeframe
                # and the candlestick type as class attributes and passes neither to the constructor
                from hexital.utils.candlesticks import validate_candlesticktype

                attrs = {}
                if hx.get("timeframe"):
                    attrs["timeframe"] = hx["timeframe"]
                if hx.get("ctype"):
                    attrs["candlestick_type"] = validate_candlesticktype(hx["ctype"])
                Strategy = type("Strategy", (Hexital,), attrs)
                self.obj = Strategy("verif", cands, members, timeframe_fill=hx.get("fill", False),
                                    candles_lifespan=hx.get("lifespan"))
            else:
                self.obj = Hexital("verif", cands, members, timeframe=hx.get("timeframe"),
                                   timeframe_fill=hx.get("fill", False),
                                   candles_lifespan=hx.get("lifespan"),
                                   candlestick_type=hx.get("ctype"))
            names = list(self.obj.indicators.keys())
            self.live = {i: n for i, n in enumerate(names)}
            self.active = list(range(len(names)))

    def _other_consumer(self):
        """one feed, several consumers: an unrelated standalone indicator on a timeframe of its own that is
        handed the very same Candle objects (`for c in feed: a.append(c); b.append(c)`).  A consumer with
        a timeframe works on its own copies, so the observed object must not notice its neighbour."""
        ft = self.sc.get("feed_to")
        if not ft:
            return None
        if getattr(self, "_other", None) is None:
            from hexital import SMA

            self._other = SMA(period=3, timeframe=ft["tf"], candlestick_type="HA" if ft.get("ha") else None,
                              timeframe_fill=bool(ft.get("fill")))
        return self._other

    def _feed_other(self, other, data):
        # what the neighbour makes of the candles is its own business (a stream that steps back in time is
        # refused by a fine timeframe and accepted by a coarse one): its exceptions are not the observed
        # object's, and a neighbour that refused once is left alone
        if getattr(self, "_other_dead", False):
            return
        try:
            other.append(data)
        except Exception:
            self._other_dead = True

    def indicator(self, i):
        if self.sc["obj"] == "ind":
            return self.obj
        return self.obj.indicator(self.live[i])

    def managers(self):
        """[(name, candle list)] of the managers that exist, default first"""
        if self.sc["obj"] == "mgr":
            return [("default", self.obj.candles)]
        if self.sc["obj"] == "list":
            return [("default", self.obj)]
        if self.sc["obj"] == "ind":
            return [("default", self.obj.candle_manager.candles)]
        return list(self.obj.get_candles().items())

    def observed(self):
        o = self.obj
        if self.sc["obj"] in ("list", "mgr"):
            return {"at": sorted(vars(o).keys()) if self.sc["obj"] == "mgr" else [], "ai": 0, "orph": 0}
        ai = getattr(o, "_active_index", 0) if self.sc["obj"] == "ind" else 0
        out = {"at": sorted(vars(o).keys()), "ai": int(ai), "orph": 0}
        if self.sc["obj"] == "hex":
            # observation only: how many registered indicators work on a candle list that the
            # Hexital does not hold (and therefore never feeds)
            held = [id(cs) for _, cs in self.managers()]
            out["orph"] = sum(1 for ind in o.indicators.values() if id(ind.candles) not in held)
        return out

    # -- one public call ---------------------------------------------------
    def run(self, step):
        op = step[0]
        sc = self.sc
        hexobj = sc["obj"] == "hex"
        self.args = ([], [])
        if op == "new":
            self.new(step[1])
        elif op == "append":
            form = sc.get("form", "candle")
            data = mk_candles(sc["stream"], self.base, step[1], step[2], form)
            if len(data) == 1 and sc.get("single_unwrapped", True):
                data = data[0]
            before = flat_args(data, self.base) if not form.startswith("candle") else []
            other = self._other_consumer() if form == "candle" else None
            if other is not None and sc["feed_to"]["order"] == "first":
                self._feed_other(other, data)
            try:
                self.obj.append(data)
                if other is not None and sc["feed_to"]["order"] == "after":
                    self._feed_other(other, data)
            finally:
                self.args = (before, flat_args(data, self.base) if not form.startswith("candle") else [])
        elif op == "poke":
            # the caller updates the newest candle in place (a forming candle that keeps trading)
            cs = self.managers()[0][1]
            cnd = cs[step[1]]
            cnd.open, cnd.high, cnd.low, cnd.close, cnd.volume = step[2]
        elif op == "collapse" and sc["obj"] == "mgr":
            self.obj.collapse_candles()
        elif op == "collapse":
            mgrs = ([self.obj.candle_manager] if not hexobj
                    else [self.indicator(i).candle_manager for i in self.active])
            for m in mgrs:
                m.collapse_candles()
        elif op == "calculate":
            self.obj.calculate(step[1] or None) if hexobj else self.obj.calculate()
        elif op == "purge":
            self.obj.purge(step[1] or None) if hexobj else self.obj.purge()
        elif op == "recalculate":
            self.obj.recalculate(step[1] or None) if hexobj else self.obj.recalculate()
        elif op == "reconf":
            # settings the generated name does not carry are changed on the live object, then it is
            # recalculated (Hexital.recalculate: "ideal for changing an indicator parameters midway")
            from catalog import HAS_MULT

            i_old, i_new = step[1], step[2]
            ind, new = self.indicator(i_old), self.cfgs[i_new]
            ind.round_value = new.rv
            if hasattr(ind, "input_value") and new.kind != "Counter":
                ind.input_value = new.inp
            if new.kind == "EMA":
                ind.smoothing = new.smoothing if new.smoothing is not None else 2.0
            if new.kind in HAS_MULT and new.mult is not None:
                setattr(ind, HAS_MULT[new.kind], new.mult)
            name = self.live[i_old]
            self.live[i_new] = name
            self.active = [i_new if x == i_old else x for x in self.active]
            if hexobj:
                self.obj.recalculate(name)
            else:
                self.obj.recalculate()
        elif op == "calculate_range":
            # Indicator.calculate_index(start, end): every reading from `start` to the end is recomputed
            # (after the caller corrected an older candle in place)
            self.obj.calculate_index(step[2], len(self.obj.candles))
        elif op == "calculate_index":
            if len(step) > 3 and step[3] == "fresh":
                if hexobj:
                    self.obj.calculate_index(step[1] or None, step[2])
                else:
                    self.obj.calculate_index(step[2])
            elif hexobj and len(step) > 3 and step[3] == "default":
                self.obj.calculate_index(step[1] or None)        # Hexital's default index (-1)
            elif hexobj:
                self.obj.calculate_index(step[1] or None, step[2])
            else:
                self.obj.calculate_index(step[2])
        elif op == "add":
            i = step[1]
            cfg = self.cfgs[i]
            m = self._member(cfg, step[2] if len(step) > 2 else "obj")
            before = set(self.obj.indicators.keys())
            self.obj.add_indicator(m)
            new = [n for n in self.obj.indicators.keys() if n not in before]
            # (an indicator registered again under its name replaces the object, the name stays)
            self.live[i] = new[0] if new else (m.name if hasattr(m, "name") else self.live.get(i, ""))
            if i not in self.active:
                self.active.append(i)
        elif op == "remove":
            self.obj.remove_indicator(step[1])
            self.active = [i for i in self.active if self.live.get(i) != step[1]]
        elif op == "reads":
            return [self.do_read(r) for r in step[1]]
        else:
            raise ValueError(op)
        return []

    # -- read-only calls ---------------------------------------------------
    def do_read(self, r):
        """r = (what, indicator number or -1, name or '', index or NOIDX)"""
        if r[0] == "an":
            return self.do_analysis(r)
        if r[0] == "geo":
            return self.do_geometry(r)
        what, ino, name, idx = r
        hexobj = self.sc["obj"] == "hex"
        ind = self.indicator(ino) if ino >= 0 else None
        j = 0
        nm = name or (ind.name if ind is not None else "")
        res = None
        touch = False
        if what == "ind.reading":
            res = ind.reading(name or None, None if idx == NOIDX else idx)
        elif what == "ind.read_candle":
            res = ind.read_candle(ind.candles[idx], name or None)
        elif what == "ind.prev_reading":
            res = ind.prev_reading(name or None)
        elif what == "ind.as_list":
            res = ("list", ind.as_list(name or None))
        elif what == "ind.has_reading":
            res = ind.has_reading
        elif what == "ind.reading_count":
            res = ind.reading_count(name or None)
        elif what == "hex.reading":
            res = self.obj.reading(nm) if idx == NOIDX else self.obj.reading(nm, idx)
            idx = -1 if idx == NOIDX else idx
        elif what == "hex.prev_reading":
            res = self.obj.prev_reading(nm)
        elif what == "hex.has_reading":
            res = self.obj.has_reading(nm)
        elif what == "hex.reading_as_list":
            res = ("list", self.obj.reading_as_list(nm))
        elif what == "hex.candles":
            from proj import ts_of

            got = self.obj.candles(name or None)
            res = ("list", [ts_of(c.timestamp, self.base) for c in got])
            names = [n for n, _ in self.managers()]
            j = names.index(name) + 1 if name in names else 1
        elif what == "hex.timeframes":
            res = len(self.obj.timeframes)
        else:
            touch = True
            if what == "str":
                str(ind if ind is not None else self.obj)
            elif what == "repr":
                repr(ind if ind is not None else self.obj)
            elif what == "name":
                (ind if ind is not None else self.obj).name
            elif what == "settings":
                ind.settings if ind is not None else self.obj.indicator_settings
            elif what == "reading_period":
                ind.reading_period(idx if idx != NOIDX else 2, name or None)
            elif what == "candles_sum":
                ind.candles_sum(idx if idx != NOIDX else 2, name or "close")   # a numeric series
            elif what == "hex.misc":
                self.obj.timeframes, self.obj.indicators, self.obj.candles(), self.obj.get_candles()
            else:
                raise ValueError(what)
        # which manager the spec should look at
        if what == "hex.candles":
            pass
        elif what.startswith("ind.") and ind is not None:
            j = self.manager_index_of(ino)
        elif what == "hex.reading_as_list":
            prim = nm.split(".")[0]
            owner = [i for i in self.active if self.live.get(i) == prim]
            j = self.manager_index_of(owner[0]) if owner else 0
        if touch:
            rv = {"t": "skip"}
        elif isinstance(res, tuple):
            rv = {"t": "l", "v": [val(x) for x in res[1]]}
        else:
            rv = val(res)
        ai = int(getattr(ind, "_active_index", 0)) if ind is not None else 0
        whole = nm in self.live.values()       # the indicator's own name: one key, never split
        return {"w": what, "j": j, "n": {"n": nm, "f": ""} if whole else ref(nm), "i": idx, "r": rv, "ai": ai}

    def do_analysis(self, r):
        """r = ("an", fn, a, b, length or None, index, variant)"""
        from hexital.analysis import MOVEMENT_MAP, PATTERN_MAP, movement

        _, fn, a, b, length, idx, var = r
        f = {**MOVEMENT_MAP, **PATTERN_MAP, "above": movement.above, "below": movement.below}[fn]
        cs = self.managers()[0][1]
        n = len(cs)
        kw = {}
        if fn in PATTERN_MAP:
            if length:
                kw["lookback"] = length
        elif fn in ("positive", "negative"):
            pass
        elif fn in ("above", "below"):
            kw.update(indicator=a, indicator_two=b)
        elif fn in ("cross", "crossover", "crossunder"):
            kw.update(indicator_one=a, indicator_two=b)
            if length is not None:
                kw["length"] = length
        else:
            kw["indicator"] = a
            if length is not None:
                kw["length"] = length
        DEFLEN = {"rising": 1, "falling": 1, "cross": 1, "crossover": 1, "crossunder": 1}
        eff = length if length is not None else DEFLEN.get(fn, 4)
        if fn in PATTERN_MAP:
            eff = length or 0
        try:
            if var == "at":
                res = f(cs, index=idx, **kw)
            elif var == "neg":
                res = f(cs, index=idx - n, **kw)
            elif var == "trunc":
                res = f(list(cs[:idx + 1]), **kw)
            else:  # default position on the whole list
                res = f(cs, **kw)
            rv = val(res)
        except Exception as e:      # one raising call must not hide the others
            rv = {"t": "o", "h": "raised " + type(e).__name__}
        return {"w": "an", "j": 1, "fn": fn, "a": ref(a or ""), "b": ref(b or ""), "len": eff,
                "i": idx if var != "neg" else idx - n, "var": var, "n": ref(fn), "r": rv, "ai": 0}

    def do_geometry(self, r):
        """r = ("geo", index): the candle's own shape properties"""
        cs = self.managers()[0][1]
        c = cs[r[1]]
        d = {"body": c.realbody, "upper": c.shadow_upper, "lower": c.shadow_lower, "range": c.high_low,
             "pos": c.positive, "neg": c.negative}
        return {"w": "geo", "j": 1, "n": ref("geometry"), "i": r[1], "r": val(d), "ai": 0}

    def manager_index_of(self, ino):
        if self.sc["obj"] == "ind":
            return 1
        cands = self.indicator(ino).candles
        for k, (_, cs) in enumerate(self.managers()):
            if cs is cands:                     # identity, only to locate the list
                return k + 1
        return 1


def run_prog(sc, base, prog=None):
    s = Session(sc, base)
    for step in (prog or sc["prog"]):
        s.run(step)
    return s


def batch_twin(sc, base, k, cfgs=None):
    """the same configuration built over the whole consumed prefix and calculated once"""
    sc2 = dict(sc)
    if cfgs is not None:
        sc2["inds"] = cfgs
        sc2["late"] = []
        sc2["member_forms"] = ["obj"] * len(cfgs)
    s = Session(sc2, base)
    s.new(k)
    s.obj.calculate()
    return s


def _mgr_tfs(sc, names):
    if sc["obj"] == "ind":
        return [sc["inds"][0].timeframe]
    hx = sc.get("hex", {})
    return [hx.get("timeframe") if n == "default" else n for n in (names or ["default"])]


def record_scale(sc):
    """C07 at scale: one single-candle append measured at two history lengths (no state projected)"""
    import workrec

    tfs = [c.timeframe for c in sc["inds"]]
    base = base_for([t for t in tfs if t])
    wk = []
    exc = ""
    ses = None
    for hist in sc["scale"]:
        ses = Session(sc, base)
        try:
            ses.run(("new", hist))
            ses.obj.calculate()
            rec = workrec.Recorder()
            rec.start(ses)
            try:
                ses.run(("append", hist + 1, hist + 1))
            finally:
                w = rec.stop(ses)
            w["hist"] = hist
            wk.append(w)
        except Exception as e:
            exc = type(e).__name__
            break
    while len(wk) < 2:
        wk.append({"j": 1, "calls": [], "minread": -1, "lines": 0, "mlines": 0, "hist": 0})
    c = sc["inds"][0]
    if sc["obj"] == "ind":
        mg = [mgr_cfg("default", c.timeframe, c.fill, c.lifespan, c.ctype)]
        inds = [dict(c.spec(ses.live.get(0, "") if ses else ""), act=1)]
    else:
        mg = [mgr_cfg("default", None, False, sc.get("hex", {}).get("lifespan"), None)]
        inds = [dict(x.spec(ses.live.get(i, "") if ses else ""), act=1) for i, x in enumerate(sc["inds"])]
    ev = {"op": "scale", "a": 0, "b": 0, "nm": "", "idx": 0, "exc": exc, "bt": [], "ob": {"at": [], "ai": 0, "orph": 0},
          "rd": [], "ab": [], "aa": [], "wk": wk, "m": [{"drop": 0, "len": 0, "d": []}]}
    return {"id": sc["id"], "fam": sc["fam"], "mg": mg, "ind": inds, "mute": [], "raw": [], "ev": [ev]}


class CallDidNotReturn(Exception):
    """a library call that ran longer than STEP_LIMIT seconds (a well-formed call returns in milliseconds)"""


STEP_LIMIT = 30


class _limit:
    """wall-clock limit on one library call (main thread only; elsewhere it is a no-op)"""

    def __enter__(self):
        import signal
        import threading

        self.on = threading.current_thread() is threading.main_thread()
        if self.on:
            def _raise(signum, frame):
                raise CallDidNotReturn()

            self.old = signal.signal(signal.SIGALRM, _raise)
            signal.setitimer(signal.ITIMER_REAL, STEP_LIMIT)
        return self

    def __exit__(self, *a):
        if self.on:
            import signal

            signal.setitimer(signal.ITIMER_REAL, 0)
            signal.signal(signal.SIGALRM, self.old)
        return False


def record(sc):
    global PRE
    proj_mod.SUB = int(sc.get("sub", 1))
    try:
        return _record(sc)
    finally:
        proj_mod.SUB = 1
        PRE = None


def _record(sc):
    if sc.get("scale"):
        return record_scale(sc)
    tfs = ([c.timeframe for c in sc["inds"] + sc.get("late", [])] + [sc.get("hex", {}).get("timeframe")]
           + [sc.get("mgr", {}).get("tf")])
    base = base_for([t for t in tfs if t])
    if sc.get("base"):
        # a chosen calendar day (midnight); only used with timeframes that divide a day
        from datetime import datetime as _dt

        base = _dt.fromisoformat(sc["base"])
        assert all(86400 % tf_seconds(t) == 0 for t in tfs if t), "base day needs day-dividing timeframes"
    if sc.get("form") == "candle_pre":
        global PRE
        PRE = preconvert(sc["stream"], base)
    ses = Session(sc, base)
    snaps = []          # per event: (event dict, {manager name: projected candles})
    consumed = 0
    worker = None
    if sc.get("work"):
        import workrec

        worker = workrec.Recorder()
    for step in sc["prog"]:
        exc = ""
        reads = []
        wk = []
        try:
            if worker and step[0] == "append" and step[1] == step[2] and ses.obj is not None:
                worker.start(ses)
                try:
                    with _limit():
                        reads = ses.run(step)
                finally:
                    wk = [worker.stop(ses)]
            else:
                with _limit():
                    reads = ses.run(step)
        except Exception as e:  # recorded, judged by the spec (a call that does not return included)
            exc = type(e).__name__
        if ses.obj is None:
            snaps.append(({"op": step[0], "a": 0, "b": step[1] if step[0] == "new" else 0, "nm": "", "idx": 0,
                           "exc": exc or "NoObject",
                           "bt": [], "ob": {"at": [], "ai": 0, "orph": 0}, "rd": [], "ab": [], "aa": [], "wk": []}, {}))
            break
        if step[0] == "new":
            consumed = step[1]
        elif step[0] == "append":
            consumed = step[2]
        nm = ""
        if step[0] in ("calculate", "purge", "recalculate", "calculate_index", "calculate_range", "remove") and len(step) > 1:
            nm = step[1] or ""
        elif step[0] == "add":
            nm = ses.live.get(step[1], "")
        elif step[0] == "reconf":
            nm = ses.live.get(step[2], "")
        opname = step[0]
        if step[0] == "calculate_index" and len(step) > 3 and step[3] == "fresh":
            opname = "calculate_index_fresh"
        ev = {"op": opname,
              "a": step[1] if step[0] == "append" else 0,
              "b": step[2] if step[0] == "append" else (step[1] if step[0] == "new" else 0),
              "nm": nm,
              "idx": step[2] if step[0] in ("calculate_index", "calculate_range") else (step[1] + 1 if step[0] == "add" else step[2] + 1 if step[0] == "reconf" else 0),
              "exc": exc, "bt": [], "ob": ses.observed(), "rd": reads,
              "ab": ses.args[0], "aa": ses.args[1], "wk": [w for w in wk if w]}
        snaps.append((ev, {n: proj_candles(cs, base) for n, cs in ses.managers()}))
        if exc:
            break
    # final list of managers (those created later are empty until then)
    mg_names = []
    for _, snap in snaps:
        for n in snap:
            if n not in mg_names:
                mg_names.append(n)
    if not mg_names:
        mg_names = ["default"]
    first_seen = {n: min(i for i, (_, s) in enumerate(snaps) if n in s) for n in mg_names
                  if any(n in s for _, s in snaps)}
    events = []
    prev = {n: [] for n in mg_names}
    for ev, snap in snaps:
        cur = {n: snap.get(n, []) for n in mg_names}
        ev["m"] = [delta(prev[n], cur[n]) for n in mg_names]
        events.append(ev)
        prev = cur
    # twins on the final state: the same configuration driven differently
    if events and not events[-1]["exc"] and consumed > 0:
        skip_of = [1 if t else 0 for t in _mgr_tfs(sc, mg_names)]
        last = events[-1]
        for kind in sc.get("twins", []):
            try:
                if kind in ("batch", "final_batch"):
                    cfgs = [ses.cfgs[i] for i in ses.active] if kind == "final_batch" else None
                    tw = batch_twin(sc, base, consumed, cfgs)
                    twm = dict(tw.managers())
                    for j, n in enumerate(mg_names):
                        if n in twm:
                            last["bt"].append({"j": j + 1, "mode": "full", "skip": 0, "names": [],
                                               "clause": "batch", "cs": proj_candles(twm[n], base)})
                elif kind == "longer":
                    tw = batch_twin(sc, base, len(sc["stream"]))
                    for j, (_, cs) in enumerate(tw.managers()):
                        last["bt"].append({"j": j + 1, "mode": "prefix", "skip": skip_of[j],
                                           "names": [], "clause": "longer", "cs": proj_candles(cs, base)})
                elif kind == "aligned":
                    # a batch over the longer stream; compared candle by candle where timestamps coincide
                    tw = batch_twin(sc, base, len(sc["stream"]))
                    for j, (_, cs) in enumerate(tw.managers()):
                        last["bt"].append({"j": j + 1, "mode": "align", "skip": skip_of[j], "names": [],
                                           "clause": "longer", "cs": proj_candles(cs, base)})
                elif kind == "reform":
                    # the same program fed with another encoding of the same candle data
                    sc2 = dict(sc, form=sc.get("reform_to", "dict_iso"), twins=[])
                    tw = run_prog(sc2, base)
                    twm = dict(tw.managers())
                    for j, n in enumerate(mg_names):
                        if n in twm:
                            last["bt"].append({"j": j + 1, "mode": "full", "skip": 0, "names": [],
                                               "clause": "reform", "cs": proj_candles(twm[n], base)})
                elif kind == "untrimmed":
                    sc2 = dict(sc)
                    sc2["inds"] = [c.clone(lifespan=None) for c in sc["inds"]]
                    if "hex" in sc:
                        sc2["hex"] = dict(sc["hex"], lifespan=None)
                    tw = run_prog(sc2, base)
                    for j, (_, cs) in enumerate(tw.managers()):
                        last["bt"].append({"j": j + 1, "mode": "tail", "skip": 0, "names": [],
                                           "clause": "untrimmed", "cs": proj_candles(cs, base)})
                elif kind == "standalone":
                    hx = sc.get("hex", {})
                    for i in ses.active:
                        c = ses.cfgs[i]
                        c2 = c.clone(timeframe=c.timeframe or hx.get("timeframe"),
                                     fill=hx.get("fill", False), lifespan=hx.get("lifespan"),
                                     ctype=hx.get("ctype"))
                        sc2 = {"id": sc["id"], "fam": sc["fam"], "obj": "ind", "inds": [c2],
                               "stream": sc["stream"], "form": sc.get("form", "candle")}
                        prog = [s for s in sc["prog"] if s[0] in ("new", "append")]
                        tw = run_prog(sc2, base, prog)
                        if prog and prog[-1][0] == "new":
                            tw.obj.calculate()
                        pcs = proj_candles(tw.obj.candles, base)
                        if tw.obj.name != ses.live[i]:
                            # the generated name carries the timeframe suffix only when the
                            # indicator itself was given one: compare the columns under one name
                            for pc in pcs:
                                pc["ik"] = [ses.live[i] if k == tw.obj.name else k for k in pc["ik"]]
                        last["bt"].append({"j": c.mg_index(mg_names), "mode": "full", "skip": 0,
                                           "names": [ses.live[i]], "clause": "standalone", "cs": pcs})
                elif kind in ("alone", "reorder"):
                    prog = [s for s in sc["prog"] if s[0] in ("new", "append", "calculate") and
                            (s[0] != "calculate" or not s[1])]
                    if kind == "alone":
                        variants = [[i] for i in ses.active if i < len(sc["inds"])]
                    else:
                        variants = [list(reversed(range(len(sc["inds"]))))]
                    forms0 = sc.get("member_forms", ["obj"] * len(sc["inds"]))
                    for order in variants:
                        # (each member in the form it was given in: how a member is spelled must not matter,
                        #  so it must not matter for the twin either)
                        sc2 = dict(sc, inds=[sc["inds"][i] for i in order], late=[],
                                   member_forms=[forms0[i] if i < len(forms0) else "obj" for i in order])
                        tw = run_prog(sc2, base, prog)
                        twm = dict(tw.managers())
                        for i in order:
                            if i not in ses.active:
                                continue
                            n = mg_names[sc["inds"][i].mg_index(mg_names) - 1]
                            if n in twm:
                                last["bt"].append({"j": mg_names.index(n) + 1, "mode": "full", "skip": 0,
                                                   "names": [ses.live[i]], "clause": kind,
                                                   "cs": proj_candles(twm[n], base)})
            except Exception as e:
                events.append({"op": "twin_" + kind, "a": 0, "b": consumed, "nm": "", "idx": 0,
                               "exc": type(e).__name__,
                               "m": [{"drop": 0, "len": len(prev[n]), "d": []} for n in mg_names],
                               "bt": [], "ob": last["ob"], "rd": [], "ab": [], "aa": [], "wk": []})
                break
    # manager and indicator descriptors
    mg = []
    inds = []
    if sc["obj"] == "mgr":
        m = sc["mgr"]
        mg.append(mgr_cfg("default", m.get("tf"), m.get("fill"), m.get("life"), m.get("ha")))
    elif sc["obj"] == "list":
        mg.append(mgr_cfg("default", None, False, None, None))
    elif sc["obj"] == "ind":
        c = sc["inds"][0]
        mg.append(mgr_cfg("default", c.timeframe, c.fill, c.lifespan, c.ctype))
        inds.append(dict(c.spec(ses.live.get(0, "")), act=1))
        for k_, c2 in enumerate(sc.get("late", []), 1):      # settings the same indicator is given later
            inds.append(dict(c2.spec(ses.live.get(k_, ses.live.get(0, ""))), act=0))
    else:
        hx = sc.get("hex", {})
        for n in mg_names:
            if n == "default":
                mg.append(mgr_cfg(n, hx.get("timeframe"), hx.get("fill"), hx.get("lifespan"), hx.get("ctype")))
            else:
                mg.append(mgr_cfg(n, n, hx.get("fill"), hx.get("lifespan"), hx.get("ctype"), src=1,
                                  late=1 if first_seen.get(n, 0) > 0 else 0))
        for i, c in enumerate(ses.cfgs or (sc["inds"] + sc.get("late", []))):
            c.mg = c.mg_index(mg_names)
            inds.append(dict(c.spec(ses.live.get(i, "")), act=1 if i < len(sc["inds"]) else 0))
    return {"id": sc["id"], "fam": sc["fam"], "mg": mg, "ind": inds, "mute": list(sc.get("mute", [])),
            "raw": (proj_candles(PRE, base) if sc.get("form") == "candle_pre"
                    else raw_json(sc["stream"], sc.get("readings"))), "ev": events}
