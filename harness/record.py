"""Run scenarios against the library in /repo's working tree and record traces.

A scenario is a dict:
  {"id", "fam", "obj": "ind"|"hex", "inds": [IndCfg], "hex": {timeframe, fill, lifespan, ctype},
   "stream": [(ts, o, h, l, c, v)], "prog": [steps], "twin": "batch"|None, "form": "candle"|"dict"|"list"}
steps:  ("new", k) | ("append", a, b) | ("calculate", name) | ...
The recorder only drives the public API and projects state (proj.py); it decides nothing.
"""
from __future__ import annotations

import sys
from datetime import timedelta

sys.path.insert(0, "/repo")

from proj import candles as proj_candles  # noqa: E402
from proj import delta  # noqa: E402
from streams import base_for, tf_seconds  # noqa: E402


def mk_candles(stream, base, a, b, form="candle"):
    """fresh input objects for stream[a-1:b] (1-based inclusive)"""
    from hexital import Candle

    out = []
    for ts, o, h, l, c, v in stream[a - 1:b]:
        t = base + timedelta(seconds=ts) if ts is not None else None
        if form == "candle":
            out.append(Candle(open=o, high=h, low=l, close=c, volume=v, timestamp=t))
        elif form == "dict":
            out.append({"open": o, "high": h, "low": l, "close": c, "volume": v, "timestamp": t})
        else:
            out.append([t, o, h, l, c, v] if t is not None else [o, h, l, c, v])
    return out


def raw_json(stream):
    from proj import NO_TS, rat

    out = []
    for ts, o, h, l, c, v in stream:
        x = 1
        d = {}
        for k, val_ in (("o", o), ("h", h), ("l", l), ("c", c), ("v", v)):
            r, e = rat(val_)
            d[k] = r
            x &= e
        d.update({"x": x, "ts": NO_TS if ts is None else ts, "tag": "", "cl": [],
                  "ik": [], "iv": [], "sk": [], "sv": []})
        out.append(d)
    return out


def mgr_cfg(name, tf, fill, life, ha, src=0):
    return {"nm": name, "tf": tf_seconds(tf), "fill": bool(fill),
            "life": -1 if life is None else int(life.total_seconds()), "ha": bool(ha), "src": src}


class Session:
    """one object under test + the list of candle lists that make up its state"""

    def __init__(self, sc, base):
        self.sc, self.base = sc, base
        self.obj = None
        self.inds = []
        self.names = []

    # -- construction ------------------------------------------------------
    def new(self, k):
        sc = self.sc
        cands = mk_candles(sc["stream"], self.base, 1, k, "candle")
        if sc["obj"] == "ind":
            cfg = sc["inds"][0]
            self.obj = cfg.build(candles=cands)
            self.inds = [self.obj]
        else:
            from hexital import Hexital

            hx = sc.get("hex", {})
            members = []
            for cfg, form in zip(sc["inds"], sc.get("member_forms", ["obj"] * len(sc["inds"]))):
                if form == "obj":
                    members.append(cfg.build(standalone=False))
                elif form == "dict":
                    members.append(cfg.as_dict())
                else:  # settings round trip
                    members.append(cfg.build(standalone=False).settings)
            self.obj = Hexital("verif", cands, members, timeframe=hx.get("timeframe"),
                               timeframe_fill=hx.get("fill", False),
                               candles_lifespan=hx.get("lifespan"),
                               candlestick_type=hx.get("ctype"))
            self.inds = list(self.obj.indicators.values())
        self.names = [i.name for i in self.inds]

    def managers(self):
        """[(name, candle list)] in a fixed order"""
        if self.sc["obj"] == "ind":
            return [("m", self.obj.candles)]
        return list(self.obj.get_candles().items())

    def run(self, step):
        op = step[0]
        sc = self.sc
        if op == "new":
            self.new(step[1])
        elif op == "append":
            data = mk_candles(sc["stream"], self.base, step[1], step[2], sc.get("form", "candle"))
            if len(data) == 1 and sc.get("single_unwrapped", True):
                data = data[0]
            self.obj.append(data)
        elif op == "collapse":
            mgrs = ([self.obj.candle_manager] if sc["obj"] == "ind"
                    else [i.candle_manager for i in self.inds])
            for m in mgrs:
                m.collapse_candles()
        elif op == "calculate":
            if sc["obj"] == "hex":
                self.obj.calculate(step[1] or None)
            else:
                self.obj.calculate()
        elif op == "purge":
            if sc["obj"] == "hex":
                self.obj.purge(step[1] or None)
            else:
                self.obj.purge()
        elif op == "recalculate":
            if sc["obj"] == "hex":
                self.obj.recalculate(step[1] or None)
            else:
                self.obj.recalculate()
        elif op == "calculate_index":
            if sc["obj"] == "hex":
                self.obj.calculate_index(step[1] or None, step[2])
            else:
                self.obj.calculate_index(step[2])
        else:
            raise ValueError(op)


def batch_twin(sc, base, k):
    """the same configuration built over the whole consumed prefix and calculated once"""
    s = Session(sc, base)
    s.new(k)
    if sc["obj"] == "hex":
        s.obj.calculate()
    else:
        s.obj.calculate()
    return s


def _mgr_tfs(sc, names):
    if sc["obj"] == "ind":
        return [sc["inds"][0].timeframe]
    hx = sc.get("hex", {})
    return [hx.get("timeframe") if n == "default" else n for n in (names or ["default"])]


def record(sc):
    tfs = [c.timeframe for c in sc["inds"]] + [sc.get("hex", {}).get("timeframe")]
    base = base_for([t for t in tfs if t])
    ses = Session(sc, base)
    events = []
    prev = None
    consumed = 0
    mg_names = None
    for step in sc["prog"]:
        exc = ""
        try:
            ses.run(step)
        except Exception as e:  # recorded, judged by the spec
            exc = type(e).__name__
        if ses.obj is None:
            events.append({"op": step[0], "a": 0, "b": 0, "nm": "", "idx": 0, "exc": exc or "NoObject",
                           "m": [], "bt": []})
            break
        if step[0] == "new":
            consumed = step[1]
        elif step[0] == "append":
            consumed = step[2]
        mgrs = ses.managers()
        if mg_names is None:
            mg_names = [n for n, _ in mgrs]
            prev = [[] for _ in mgrs]
        cur = [proj_candles(cs, base) for _, cs in mgrs]
        ev = {"op": step[0],
              "a": step[1] if step[0] == "append" else 0,
              "b": step[2] if step[0] == "append" else (step[1] if step[0] == "new" else 0),
              "nm": step[1] if step[0] in ("calculate", "purge", "recalculate", "calculate_index") and step[1] else "",
              "idx": step[2] if step[0] == "calculate_index" else 0,
              "exc": exc,
              "m": [delta(p, c) for p, c in zip(prev, cur)],
              "bt": []}
        events.append(ev)
        prev = cur
        if exc:
            break
    # twins on the final state: the same configuration driven differently
    if events and not events[-1]["exc"] and consumed > 0:
        skip_of = [1 if (m_tf) else 0 for m_tf in _mgr_tfs(sc, mg_names)]
        for kind in sc.get("twins", []):
            try:
                if kind == "batch":
                    tw = batch_twin(sc, base, consumed)
                    for j, (_, cs) in enumerate(tw.managers()):
                        events[-1]["bt"].append({"j": j + 1, "mode": "full", "skip": 0, "names": [],
                                                 "clause": "batch", "cs": proj_candles(cs, base)})
                elif kind == "longer":
                    tw = batch_twin(sc, base, len(sc["stream"]))
                    for j, (_, cs) in enumerate(tw.managers()):
                        events[-1]["bt"].append({"j": j + 1, "mode": "prefix", "skip": skip_of[j],
                                                 "names": [], "clause": "longer",
                                                 "cs": proj_candles(cs, base)})
                elif kind == "untrimmed":
                    sc2 = dict(sc)
                    sc2["inds"] = [c.clone(lifespan=None) for c in sc["inds"]]
                    if "hex" in sc:
                        sc2["hex"] = dict(sc["hex"], lifespan=None)
                    tw = Session(sc2, base)
                    for step in sc["prog"]:
                        tw.run(step)
                    for j, (_, cs) in enumerate(tw.managers()):
                        events[-1]["bt"].append({"j": j + 1, "mode": "tail", "skip": 0, "names": [],
                                                 "clause": "untrimmed", "cs": proj_candles(cs, base)})
                elif kind == "standalone":
                    hx = sc.get("hex", {})
                    for c, live in zip(sc["inds"], ses.names):
                        c2 = c.clone(timeframe=c.timeframe or hx.get("timeframe"),
                                     fill=hx.get("fill", False), lifespan=hx.get("lifespan"),
                                     ctype=hx.get("ctype"))
                        sc2 = {"id": sc["id"], "fam": sc["fam"], "obj": "ind", "inds": [c2],
                               "stream": sc["stream"], "prog": sc["prog"]}
                        tw = Session(sc2, base)
                        for step in sc["prog"]:
                            tw.run((step[0], "", *step[2:]) if step[0] in ("calculate",) else step)
                        events[-1]["bt"].append({"j": c.mg_index(mg_names), "mode": "full", "skip": 0,
                                                 "names": [live], "clause": "standalone",
                                                 "cs": proj_candles(tw.obj.candles, base)})
            except Exception as e:
                events.append({"op": "twin_" + kind, "a": 0, "b": consumed, "nm": "", "idx": 0,
                               "exc": type(e).__name__,
                               "m": [{"drop": 0, "len": len(p), "d": []} for p in prev], "bt": []})
                break
    # manager and indicator descriptors
    mg = []
    inds = []
    if sc["obj"] == "ind":
        c = sc["inds"][0]
        mg.append(mgr_cfg("m", c.timeframe, c.fill, c.lifespan, c.ctype))
        inds.append(c.spec(ses.names[0] if ses.names else ""))
    else:
        hx = sc.get("hex", {})
        names = mg_names or ["default"]
        for n in names:
            if n == "default":
                mg.append(mgr_cfg(n, hx.get("timeframe"), hx.get("fill"), hx.get("lifespan"), hx.get("ctype")))
            else:
                mg.append(mgr_cfg(n, n, hx.get("fill"), hx.get("lifespan"), hx.get("ctype"), src=1))
        for c, live in zip(sc["inds"], ses.names):
            c.mg = c.mg_index(names)
            inds.append(c.spec(live))
    return {"id": sc["id"], "fam": sc["fam"], "mg": mg, "ind": inds,
            "raw": raw_json(sc["stream"]), "ev": events}
