"""Projection of live Hexital objects into the JSON the TLA+ trace specifications read.

Deliberately dumb: attribute-by-attribute serialisation, no property logic.  Every
judgement about the projected state is made by TLC (spec/Trace*.tla).

Encoding rules (forced by TLC's JSON reader: no null, no non-integers, no {}):
  number  -> {"t":"q","n","d","x","s","sf","i","h"}
             n/d   recovered fraction (exact dyadic if small, else limit_denominator)
             x     1 iff n/d is the value (|err| <= 1e-12*|v|; 1e-12 around 0)
             s,sf  round(v*1e6), valid iff |v| < 2000
             i     1 iff the Python object is an int
             h     float.hex() of the value (bit-exact identity; -0.0 folded into 0.0)
  None    -> {"t":"n"};  bool -> {"t":"b","b":..};  dict -> {"t":"d","k":[..],"v":[..]}
  nan/inf -> {"t":"nf","h":repr};  anything else -> {"t":"o","h":type name}
"""
from __future__ import annotations

import math
from datetime import datetime
from fractions import Fraction

NO_TS = -2000000000
I31 = 2**31 - 1


def frac(v):
    """(n, d, exact) with |n|, d < 2^31."""
    if isinstance(v, bool):
        v = int(v)
    if isinstance(v, int):
        if abs(v) <= I31 // 2:
            return v, 1, 1
        return 0, 1, 0
    f = float(v)
    if abs(f) >= 2**29:
        return 0, 1, 0
    n, d = f.as_integer_ratio()
    if d <= 2**26 and abs(n) < 2**30:
        return n, d, 1
    D = max(1, min(10**6, int(2**30 / max(1.0, abs(f)))))
    if 0 < abs(f) < 1e-4:
        D = 10**9       # sub-cent quotes (1e-8 ticks): the numerator stays small, so a fine denominator fits
    fr = Fraction(f).limit_denominator(D)
    err = abs(fr - Fraction(f))
    # relative to the value (below 1 an absolute 1e-12 would accept a wrong small fraction for a
    # sub-cent price); a float that is noise around 0 still counts as 0
    exact = 1 if err <= Fraction(1, 10**12) * (abs(fr) if fr != 0 else 1) else 0
    return fr.numerator, fr.denominator, exact


def num(v):
    if isinstance(v, float) and not math.isfinite(v):
        return {"t": "nf", "h": repr(v)}
    n, d, x = frac(v)
    f = float(v)
    if f == 0.0:
        f = 0.0
    sf = 1 if abs(f) < 2000 else 0
    return {
        "t": "q",
        "n": n,
        "d": d,
        "x": x,
        "s": int(round(f * 1e6)) if sf else 0,
        "sf": sf,
        "i": 1 if isinstance(v, int) and not isinstance(v, bool) else 0,
        "h": f.hex(),
    }


def val(v):
    if v is None:
        return {"t": "n"}
    if isinstance(v, bool):
        return {"t": "b", "b": bool(v)}
    if isinstance(v, (int, float)):
        return num(v)
    if isinstance(v, dict):
        return {"t": "d", "k": [str(k) for k in v.keys()], "v": [val(x) for x in v.values()]}
    try:  # numpy scalars and the like
        import numbers

        if isinstance(v, numbers.Integral):
            return num(int(v))
        if isinstance(v, numbers.Real):
            return num(float(v))
    except Exception:
        pass
    return {"t": "o", "h": type(v).__name__}


def rat(v):
    """raw OHLCV field -> ([n, d], exact)"""
    if isinstance(v, float) and not math.isfinite(v):
        return [0, 1], 0
    n, d, x = frac(v)
    return [n, d], x


# time units per second on the specification's axis: 1 by default; a scenario without any timeframe may
# run on a finer axis (quarter seconds) -- the specification's lifespan arithmetic is unit-free
SUB = 1


def ts_of(t, base):
    if t is None:
        return NO_TS
    if not isinstance(t, datetime):
        return NO_TS
    if t.tzinfo is not None:
        # an aware timestamp is an instant: place it on the axis through UTC
        from datetime import timezone

        t = t.astimezone(timezone.utc)
    delta = t.replace(tzinfo=None) - base
    return int(delta.days * 86400 + delta.seconds) * SUB + (delta.microseconds * SUB) // 1_000_000


def candle(c, base):
    out = {}
    ex = 1
    for key, attr in (("o", "open"), ("h", "high"), ("l", "low"), ("c", "close"), ("v", "volume")):
        r, x = rat(getattr(c, attr))
        out[key] = r
        ex &= x
    out["x"] = ex
    out["ts"] = ts_of(c.timestamp, base)
    out["tag"] = c.tag if c.tag else ""
    cl = c.clean_values
    if cl:
        cvals = []
        for attr in ("open", "high", "low", "close", "volume"):
            r, x = rat(cl.get(attr, 0))
            cvals.append(r)
            out["x"] &= x
        cvals.append([ts_of(cl.get("timestamp"), base), 1])
        out["cl"] = cvals
    else:
        out["cl"] = []
    out["ik"] = [str(k) for k in c.indicators.keys()]
    out["iv"] = [val(v) for v in c.indicators.values()]
    out["sk"] = [str(k) for k in c.sub_indicators.keys()]
    out["sv"] = [val(v) for v in c.sub_indicators.values()]
    return out


def candles(cs, base):
    return [candle(c, base) for c in cs]


def delta(prev, cur):
    """Changed candles between two projected lists, as {drop, len, d:[{i, c}]} (i 1-based).

    drop = number of candles removed from the front (matched by equality of what follows),
    so a trimmed list is 'drop k' + changes rather than every candle changing."""
    drop = 0
    if prev and cur:
        # candles removed from the front: those older than the first candle that is left
        first = cur[0]["ts"]
        while drop < len(prev) and prev[drop]["ts"] < first:
            drop += 1
    elif prev and not cur:
        drop = len(prev)
    kept = prev[drop:]
    d = []
    for i, c in enumerate(cur):
        if i >= len(kept) or kept[i] != c:
            d.append({"i": i + 1, "c": c})
    return {"drop": drop, "len": len(cur), "d": d}
