"""spec -> code for the engine layer: behaviours of MC_Engine (TLC simulation of MC_EngineEmit, every
call with the complete state the specification expects after it) are driven into a real Hexital --
same candles, same registry, same sequence of append / calculate / purge / recalculate /
calculate_index / remove_indicator calls -- and after EVERY call the candles, the top-level readings
and every helper series are compared with what TLC computed (exact rationals against the library's
rounded floats)."""
from __future__ import annotations

import json
import os
import shutil
import sys
import tempfile
from datetime import datetime, timedelta

sys.path.insert(0, os.environ.get("HEXITAL_REPO", "/repo"))  # /repo unless a run snapshot is given

import tlc  # noqa: E402

BASE = datetime(2023, 6, 1, 11, 3)      # zone-free epoch seconds are a multiple of 3 s (the model's TF)
TOL = 6e-4                               # the model is unrounded; the library rounds every layer to 4 decimals


def behaviours(num, depth, seed, cfg="MC_EngineEmit.cfg"):
    r = tlc.run_tlc("MC_EngineEmit", cfg, workers=1, timeout=3000, deadlock_flag=False,
                    extra=("-simulate", f"num={num}", "-depth", str(depth), "-seed", str(seed)))
    out = r["out"]
    if "Error:" in out and "EMIT" not in out:
        raise RuntimeError("MC_EngineEmit failed:\n" + out[-2000:])
    seen, behs = set(), []
    for b in tlc.tagged_json(out, "EMIT"):
        key = json.dumps(b["hist"], sort_keys=True) + json.dumps(b["cfg"], sort_keys=True)
        if key not in seen:
            seen.add(key)
            behs.append(b)
    return behs, r


def _build(m):
    """the library indicator for one menu entry of the model, named as the model names it"""
    from catalog import IndCfg

    kw = {}
    if m["kind"] == "Supertrend":
        kw["mult"] = 3.0
    cfg = IndCfg(m["kind"], p=m["p"], p2=m["p2"], p3=m["p3"], extra={"fullname_override": m["name"]}, **kw)
    return cfg.build(standalone=False)


# ratios of smoothed quantities amplify the library's per-layer rounding (4 decimals); price-level
# readings do not
RATIO_KINDS = {"RSI": 0.06, "STOCH": 0.06, "AROON": 1e-3, "ROC": 2e-3}


def _f(q):
    return q[0] / q[1]


def _cmp_val(exp, got, path, bad, tol=TOL):
    t = exp["t"]
    if t in ("nar", "any", "sqrt"):
        return          # the exact arithmetic overflowed 32 bits / the specification leaves it open
    if t == "n":
        if got is not None:
            bad.append(f"{path}: expected None, library has {got!r}")
    elif t == "b":
        if got is not exp["b"]:
            bad.append(f"{path}: expected {exp['b']}, library has {got!r}")
    elif t == "q":
        if got is None or isinstance(got, (dict, bool)) or abs(float(got) - exp["n"] / exp["d"]) > tol * max(1.0, abs(exp["n"] / exp["d"]) / 10):
            bad.append(f"{path}: expected {exp['n']}/{exp['d']} = {exp['n'] / exp['d']:.6f}, library has {got!r}")
    elif t == "d":
        if not isinstance(got, dict) or list(got.keys()) != list(exp["k"]):
            bad.append(f"{path}: expected fields {exp['k']}, library has {got!r}")
        else:
            for k, v in zip(exp["k"], exp["v"]):
                _cmp_val(v, got[k], f"{path}.{k}", bad, tol)
    else:
        bad.append(f"{path}: specification value of kind {t!r} is not comparable")


def _cmp_state(step_no, step, cands, bad, tols):
    exp = step["cs"]
    if len(exp) != len(cands):
        bad.append(f"call {step_no} {step['op']}: {len(cands)} candles, specification has {len(exp)}")
        return
    for i, (e, c) in enumerate(zip(exp, cands)):
        where = f"call {step_no} {step['op']} candle {i}"
        if c.timestamp != BASE + timedelta(seconds=e["ts"]):
            bad.append(f"{where}: timestamp {c.timestamp} != base+{e['ts']}s")
        for fld, name in (("o", "open"), ("h", "high"), ("l", "low"), ("c", "close"), ("v", "volume")):
            if abs(getattr(c, name) - _f(e[fld])) > 1e-9:
                bad.append(f"{where}: {name} {getattr(c, name)} != {_f(e[fld])}")
        for kind, kv, have in (("reading", e["ind"], c.indicators), ("helper", e["sub"], c.sub_indicators)):
            # a series that has nothing to show may be stored as None or not stored at all
            want = dict(zip(kv["k"], kv["v"]))
            for k in sorted(set(want) | set(have)):
                tol = max([TOL] + [t for nm, t in tols.items() if k == nm or k.startswith(nm + "_")])
                _cmp_val(want.get(k, {"t": "n"}), have.get(k), f"{where} {kind} {k}", bad, tol)


def replay(beh):
    """returns the list of mismatches (empty = the library followed the behaviour)"""
    from hexital import Candle, Hexital

    cfg, menu, hist = beh["cfg"], beh["menu"], beh["hist"]
    names = [m["name"] for m in menu]
    tols = {m["name"]: RATIO_KINDS[m["kind"]] for m in menu if m["kind"] in RATIO_KINDS}
    tf = f"S{cfg['tf']}" if cfg["tf"] else None
    life = timedelta(seconds=cfg["life"]) if cfg["life"] >= 0 else None
    hx = Hexital("replay", [], [_build(menu[n - 1]) for n in hist[0]["reg"]], timeframe=tf,
                 timeframe_fill=bool(cfg["fill"]), candles_lifespan=life,
                 candlestick_type="HA" if cfg["ha"] else None)
    raw = [Candle(open=_f(c["o"]), high=_f(c["h"]), low=_f(c["l"]), close=_f(c["c"]), volume=_f(c["v"]),
                  timestamp=BASE + timedelta(seconds=c["ts"])) for c in beh["raw"]]
    pos, bad = 0, []
    for k, st in enumerate(hist, 1):
        if not st.get("claim", True):
            break       # from here on the lifespan has cut into an indicator's look-back: nothing is claimed
        op = st["op"]
        name = names[st["n"] - 1] if st["n"] else None
        try:
            if op == "append":
                chunk = raw[pos:st["raw"]]
                pos = st["raw"]
                hx.append(chunk if len(chunk) > 1 else chunk[0])
            elif op == "calculate":
                hx.calculate(name)
            elif op == "purge":
                hx.purge(name)
            elif op == "recalculate":
                hx.recalculate(name)
            elif op == "calculate_index":
                hx.calculate_index(name, st["i"] - 1)
            elif op == "remove":
                hx.remove_indicator(name)
            else:
                raise ValueError(op)
        except Exception as e:  # noqa: BLE001 - any exception is a mismatch: the specification's call succeeds
            bad.append(f"call {k} {op}({name or ''}): raised {type(e).__name__}: {e}")
            break
        if sorted(hx.indicators.keys()) != sorted(names[n - 1] for n in st["reg"]):
            bad.append(f"call {k} {op}: registry {sorted(hx.indicators.keys())} != specification's")
        _cmp_state(k, st, hx.candles(tf) if tf else hx.candles(), bad, tols)
        if bad:
            break
    return bad


def program(beh):
    names = [m["name"] for m in beh["menu"]]
    return [(s["op"], names[s["n"] - 1] if s["n"] else "", s["i"], s["raw"]) for s in beh["hist"]]


if __name__ == "__main__":
    num, seed = int(sys.argv[1]), int(sys.argv[2])
    behs, r = behaviours(num, 16, seed)
    nbad = 0
    for b in behs:
        m = replay(b)
        if m:
            nbad += 1
            if nbad <= 3:
                print(program(b), b["cfg"])
                print("   ", m[:3])
    print(f"{len(behs)} behaviours, {nbad} with mismatches; TLC {r['wall']:.1f}s")
