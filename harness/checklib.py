"""Shared machinery of /verif/check: record -> validate with TLC -> classify -> evidence."""
from __future__ import annotations

import json
import os
import random
import sys
import time
from datetime import timedelta

HERE = os.path.dirname(os.path.abspath(__file__))
sys.path.insert(0, HERE)
sys.path.insert(0, os.environ.get("HEXITAL_REPO", "/repo"))  # /repo unless a run snapshot is given

import tlc  # noqa: E402
from catalog import IndCfg, kind_property  # noqa: E402

VERIF = os.path.dirname(HERE)
EVID = os.path.join(VERIF, "evidence")
REPLAYS = os.path.join(VERIF, "replays")
KNOWN = os.path.join(VERIF, "known_findings.json")


# ---------------------------------------------------------------------------------------
# scenario (de)serialisation for replay files
def sc_to_json(sc):
    d = dict(sc)
    d["inds"] = [c.to_json() for c in sc["inds"]]
    d["late"] = [c.to_json() for c in sc.get("late", [])]
    if "hex" in d:
        h = dict(d["hex"])
        if h.get("lifespan") is not None:
            h["lifespan"] = h["lifespan"].total_seconds()
        d["hex"] = h
    if "mgr" in d:
        m = dict(d["mgr"])
        if m.get("life") is not None:
            m["life"] = m["life"].total_seconds()
        d["mgr"] = m
    d["stream"] = [list(x) for x in sc["stream"]]
    d["prog"] = [list(x) for x in sc["prog"]]
    return d


def sc_from_json(d):
    sc = dict(d)
    sc["inds"] = [IndCfg.from_json(x) for x in d["inds"]]
    sc["late"] = [IndCfg.from_json(x) for x in d.get("late", [])]
    if "hex" in sc:
        h = dict(sc["hex"])
        if h.get("lifespan") is not None:
            h["lifespan"] = timedelta(seconds=h["lifespan"])
        sc["hex"] = h
    if "mgr" in sc:
        m = dict(sc["mgr"])
        if m.get("life") is not None:
            m["life"] = timedelta(seconds=m["life"])
        sc["mgr"] = m
    sc["stream"] = [tuple(x) for x in d["stream"]]
    sc["prog"] = [tuple(x) for x in d["prog"]]
    return sc


# ---------------------------------------------------------------------------------------
# clause -> properties
def props_of(finding, trace, sc):
    """the set of property ids a failed clause counts against"""
    l, clause, j, name, idx = finding
    fam = trace.get("fam", "")
    mg = trace["mg"][j - 1] if 0 < j <= len(trace["mg"]) else None
    over = sc.get("clause_props", {}) if sc else {}
    if clause in over:
        return set(over[clause])
    base = clause.split("_")[0]
    if base in over:
        return set(over[base])
    if clause in ("exc",):
        return {"C09"}
    if clause in ("nonfinite", "gap"):
        return {"C09"}
    if clause == "value":
        kinds = [c["kind"] for c in trace["ind"]]
        owner = None
        for c in trace["ind"]:
            if name == c["name"] or name.startswith(c["name"] + "_"):
                owner = c["kind"]
        if owner is None:
            # default-named helpers (TR, SMA_p, STDEV_p) belong to the composite that owns them
            owner = kinds[-1] if kinds else "?"
        return {kind_property(owner)}
    if clause == "round":
        return {"C10"}
    if clause.startswith("struct"):
        return {"C10", "C04"} if clause == "struct_between" else {"C10"}
    if base == "repaint":
        return {"C02"}
    if base == "batch":
        return {"C01"}
    if base == "longer":
        return {"C02"}
    if base == "standalone":
        return {"C08"}
    if base == "untrimmed":
        return {"C15"}
    if base in ("purge", "reindex", "recalc"):
        return {"C14"}
    if base == "interfere" or base in ("alone", "reorder"):
        return {"C13"}
    if base in ("attrs", "sideeffect", "args"):
        return {"C19"}
    if base == "foreign":
        return {"C19", "C13", "C08"}
    if base == "reform":
        return {"C19"}
    if base == "orphan":
        # (an indicator working on a candle list its Hexital no longer feeds sees candles that are not the
        #  resampling of the stream: it counts against the manager properties as well)
        return {"C01", "C03", "C08", "C11", "C12", "C13", "C14", "C15", "C19"}
    if base == "read":
        return {"C20"}
    if base == "work":
        return {"C07"}
    if base == "an":
        return {"C16", "C17"}
    if base == "geo":
        return {"C17"}
    if base in ("stage", "def"):
        ps = set()
        if mg:
            if mg["ha"]:
                ps.add("C11")
            if mg["fill"]:
                ps.add("C12")
            if mg["life"] >= 0:
                ps.add("C15")
            if mg["tf"]:
                ps.add("C03")
        if sc and sc.get("tz"):
            ps.add("C18")
        return ps or {"C01"}
    return {"?"}


# ---------------------------------------------------------------------------------------
def load_known():
    if not os.path.exists(KNOWN):
        return []
    return json.load(open(KNOWN)).get("findings", [])


def known_match(pid, finding, trace, sc, known):
    """an OPEN known finding that covers exactly this failure (property, clause, kind, class)"""
    l, clause, j, name, idx = finding
    kinds = {c["kind"] for c in trace["ind"]}
    for k in known:
        if k.get("status") != "open" or k["property"] != pid:
            continue
        m = k["match"]
        if "clause" in m and not clause.startswith(m["clause"]):
            continue
        if "kind" in m and m["kind"] not in kinds:
            continue
        if "name_suffix" in m and not name.endswith(m["name_suffix"]):
            continue
        if "exc" in m and name != m["exc"]:
            continue
        if "fam" in m and trace.get("fam") != m["fam"]:
            continue
        if "class" in m and (sc or {}).get("class") != m["class"]:
            continue
        if "min_manager" in m and j < m["min_manager"]:
            continue
        return k
    return None


# ---------------------------------------------------------------------------------------
def run_traces(pid, scs, keep=None, batch=400):
    """record every scenario, validate with TLC in batches; returns (traces, results, tlc stats)"""
    traces = record_all(scs)
    results = {}
    stats = {"states": 0, "distinct": 0, "wall": 0.0, "bytes": 0}
    for a in range(0, len(traces), batch):
        part = traces[a:a + batch]
        res, info = tlc.validate_traces(part, keep=keep)
        for tid, r in res.items():
            results[a + tid - 1] = r
        stats["states"] += info["states"]
        stats["distinct"] += info["distinct"]
        stats["wall"] += info["wall"]
        stats["bytes"] += info["size"]
    return traces, results, stats


def record_all(scs):
    """record in this process, except scenarios that ask for another process time zone"""
    import subprocess
    import tempfile

    from record import record

    traces = [None] * len(scs)
    by_tz = {}
    for i, sc in enumerate(scs):
        if sc.get("tz"):
            by_tz.setdefault(sc["tz"], []).append(i)
        else:
            traces[i] = record(sc)
    for tz, idxs in by_tz.items():
        d = tempfile.mkdtemp(prefix="rec_")
        try:
            with open(os.path.join(d, "in.json"), "w") as f:
                json.dump([sc_to_json(scs[i]) for i in idxs], f)
            env = dict(os.environ, TZ=tz, PYTHONHASHSEED="0", PYTHONDONTWRITEBYTECODE="1")
            p = subprocess.run([sys.executable, os.path.join(HERE, "rec_worker.py"),
                                os.path.join(d, "in.json"), os.path.join(d, "out.json")],
                               env=env, capture_output=True, text=True, timeout=600)
            if p.returncode != 0:
                raise RuntimeError("recorder failed under TZ=%s: %s" % (tz, p.stderr[-2000:]))
            out = json.load(open(os.path.join(d, "out.json")))
            for i, tr in zip(idxs, out):
                traces[i] = tr
        finally:
            import shutil

            shutil.rmtree(d, ignore_errors=True)
    return traces


def sample_of(sc, trace):
    return {"id": sc["id"], "family": sc["fam"], "object": sc["obj"],
            "indicators": [c.label() for c in sc["inds"]],
            "hexital": {k: str(v) for k, v in sc.get("hex", {}).items()},
            "stream_first": [list(x) for x in sc["stream"][:4]], "stream_len": len(sc["stream"]),
            "calls": [list(x) for x in sc["prog"][:8]], "events": len(trace["ev"])}


def write_evidence(pid, tier, seed, cov, wall, violations, assumptions):
    os.makedirs(EVID, exist_ok=True)
    ev = {"property_id": pid, "tier": tier, "seed": seed, "level": "model_checking",
          "coverage": cov, "assumptions": assumptions, "wall_s": round(wall, 2),
          "violations": violations}
    with open(os.path.join(EVID, f"{pid}.json"), "w") as f:
        json.dump(ev, f, indent=1)


def write_replay(pid, seed, n, sc, trace, findings):
    os.makedirs(REPLAYS, exist_ok=True)
    path = os.path.join(REPLAYS, f"{pid}_{seed}_{n}.json")
    with open(path, "w") as f:
        json.dump({"property": pid, "seed": seed, "scenario": sc_to_json(sc),
                   "findings": findings, "trace": trace}, f)
    return path


ASSUME = [
    "TLC 1.8 / SANY evaluate the TLA+ specification correctly; CPython runs the library as users do",
    "the Python harness only generates scenarios, drives the public API, serialises state "
    "attribute by attribute (proj.py) and parses TLC's RESULT lines; every judgement is a TLA+ formula",
    "inputs are well formed (non-decreasing timestamps, low <= open,close <= high, volume >= 0), "
    "integers or short decimals, periods 2..9, streams of 10..40 candles",
    "numeric agreement is decided per layer in exact 32-bit rationals; comparisons whose inputs "
    "cannot be recovered exactly are counted as unchecked, never as verdicts",
]


def trace_check(pid, tier, seed, scs, mc_stats=None, extra_cov=None, t0=None, extra_violations=0):
    """the common tail of a check: validate scenarios, classify, print verdict lines, evidence.
    returns exit code"""
    t0 = t0 or time.time()
    known = load_known()
    # every known finding of this property that has a committed replay file is re-run from it: an open
    # one prints its KNOWN-FINDING line exactly as long as the defect is still there, a repaired one is
    # an ordinary scenario (it suppresses nothing: if the defect returns it is a VIOLATION)
    scs = list(scs)
    for k in known:
        if k["property"] == pid and k.get("replay") and os.path.exists(k["replay"]):
            ksc = sc_from_json(json.load(open(k["replay"]))["scenario"])
            ksc["id"] = "known/" + k["id"]
            if k.get("status") == "open" and "class" in k["match"]:
                ksc["class"] = k["match"]["class"]
            scs.append(ksc)
    traces, results, st = run_traces(pid, scs)
    viol, knownhits, foreign = [], {}, {}
    nchk = unch = 0
    clause_counts = {}
    notes = {}
    for i, (sc, tr) in enumerate(zip(scs, traces)):
        r = results[i]
        nchk += r["nchk"]
        unch += r["unch"]
        for nt in r.get("notes", []):
            notes[nt] = notes.get(nt, 0) + 1
        mine = []
        for f in r["fails"]:
            ps = props_of(f, tr, sc)
            if pid in ps:
                k = known_match(pid, f, tr, sc, known)
                if k:
                    knownhits.setdefault(k["id"], k)
                else:
                    mine.append(f)
            else:
                for p in ps:
                    foreign[p] = foreign.get(p, 0) + 1
            clause_counts[f[1]] = clause_counts.get(f[1], 0) + 1
        if mine:
            viol.append((sc, tr, mine))
    for k in knownhits.values():
        print(f"KNOWN-FINDING: property={pid} {k['what']}")
    paths = []
    for n, (sc, tr, mine) in enumerate(viol[:5]):
        path = write_replay(pid, seed, n, sc, tr, mine)
        paths.append(path)
        print(f"VIOLATION property={pid} replay={path}")
        print(f"  scenario {sc['id']}: " + "; ".join(
            f"event {f[0]} clause {f[1]} series '{f[3]}' candle {f[4]}" for f in mine[:4]))
    mc_stats = mc_stats or []
    cov = {
        "states": st["distinct"] + sum(m["distinct"] for m in mc_stats),
        "transitions": st["states"] + sum(m["states"] for m in mc_stats),
        "traces_validated_against_impl": len(traces),
        "samples": [sample_of(sc, tr) for sc, tr in list(zip(scs, traces))[:3]],
        "design_models": [{k: m[k] for k in ("name", "distinct", "states", "wall", "constants")} for m in mc_stats],
        "trace_events": sum(len(t["ev"]) for t in traces),
        "comparisons_ok": nchk,
        "comparisons_unchecked": unch,
        "conditional_clauses_applied": notes,
        "failed_clauses_all_properties": clause_counts,
        "foreign_findings": foreign,
        "known_findings_hit": sorted(knownhits),
        "violating_scenarios": len(viol),
        "trace_json_bytes": st["bytes"],
        "exhaustive": False,
    }
    if extra_cov:
        cov.update(extra_cov)
    write_evidence(pid, tier, seed, cov, time.time() - t0, len(viol) + extra_violations, ASSUME)
    print(f"{pid} {tier} seed={seed}: {len(traces)} traces, {cov['trace_events']} events, "
          f"{nchk} comparisons ok, {unch} unchecked, {len(viol)} violating scenarios, "
          f"{time.time() - t0:.1f}s")
    return 1 if viol else 0
