"""Design-level TLC runs (the specification checked on its own bounded instances)."""
from __future__ import annotations

import re

import tlc


class SpecViolation(Exception):
    pass


def run_model(name, module, cfg, constants, workers=16, timeout=1500, expect_violation=None, keep_out=False):
    """run one MC configuration; the design must hold (or, for a deviation config, must FAIL
    with the named invariant -- the non-vacuity test).  Returns a stats dict."""
    r = tlc.run_tlc(module, cfg, workers=workers, timeout=timeout, deadlock_flag=False)
    out = r["out"]
    viol = re.findall(r"Invariant (\w+) is violated", out) + re.findall(r"Action property (\w+) is violated", out)
    err = "Error:" in out and not viol
    if expect_violation:
        if expect_violation not in viol and not viol:
            raise SpecViolation(f"{name}: deviation config did not violate {expect_violation} (vacuous?)")
    else:
        if viol or err or "Model checking completed. No error has been found" not in out:
            tail = "\n".join(out.splitlines()[-30:])
            raise SpecViolation(f"{name}: design-level model failed: {viol}\n{tail}")
    st = {"name": name, "module": module, "cfg": cfg, "constants": constants, "distinct": r["distinct"],
          "states": r["states"], "wall": round(r["wall"], 1), "violated": viol}
    if keep_out:
        st["out"] = out
    return st
