from __future__ import annotations

import argparse
import json
import os
import random
import sys
import time
import traceback

HERE = os.path.dirname(os.path.abspath(__file__))
sys.path.insert(0, HERE)

import checklib  # noqa: E402
import families  # noqa: E402


def main():
    ap = argparse.ArgumentParser()
    ap.add_argument("pid")
    ap.add_argument("--tier", default=os.environ.get("VERIF_TIER", "quick"))
    ap.add_argument("--replay")
    a = ap.parse_args()
    seed = int(os.environ.get("VERIF_SEED", "20261003"))
    time.tzset()
    t0 = time.time()
    try:
        if a.replay:
            d = json.load(open(a.replay))
            sc = checklib.sc_from_json(d["scenario"])
            return checklib.trace_check(a.pid, a.tier, seed, [sc], t0=t0)
        rng = random.Random(f"{a.pid}/{seed}")
        import props

        return props.run(a.pid, a.tier, seed, rng, t0)
    except Exception:
        traceback.print_exc()
        print(f"MACHINERY-FAILURE property={a.pid}")
        return 2


if __name__ == "__main__":
    sys.exit(main())
