"""Evaluate one seeded change: confirm it (tests pass, demo fails with / passes without) in its
scratch worktree, then run checks against /repo with the patch applied, and undo it.
usage: evalmut.py <name> <property> <worktree> [checks,comma,separated | all]"""
import json, os, shutil, subprocess, sys, time

name, prop, wt = sys.argv[1:4]
which = sys.argv[4] if len(sys.argv) > 4 else prop
ROOT = os.path.dirname(os.path.dirname(os.path.abspath(__file__)))
dst = os.path.join(ROOT, "seeded", name)
os.makedirs(dst, exist_ok=True)
mut = os.path.join(wt, "MUTANT")

def sh(cmd, cwd=None, env=None, timeout=3600):
    p = subprocess.run(cmd, shell=True, cwd=cwd, capture_output=True, text=True, env=env, timeout=timeout)
    return p.returncode, p.stdout + p.stderr

meta = {"name": name, "property": prop, "ran": []}
# 1. confirm in the scratch worktree
rc, out = sh("git checkout -q -- hexital", cwd=wt)
rc0, out0 = sh("/venv/bin/python MUTANT/demo.py", cwd=wt)
rcA, outA = sh("git apply MUTANT/patch.diff", cwd=wt)
rc1, out1 = sh("/venv/bin/python MUTANT/demo.py", cwd=wt)
rct, outt = sh("/venv/bin/python -m pytest -q -p no:cacheprovider 2>&1 | tail -1", cwd=wt)
meta["confirm"] = {"demo_without_change_rc": rc0, "patch_applies": rcA == 0, "demo_with_change_rc": rc1,
                   "suite_with_change": outt.strip()}
ok = rc0 == 0 and rcA == 0 and rc1 != 0 and "325 passed" in outt
meta["confirmed"] = ok
print("confirm:", meta["confirm"])
for f in ("patch.diff", "demo.py", "notes.md"):
    if os.path.exists(os.path.join(mut, f)):
        shutil.copy(os.path.join(mut, f), os.path.join(dst, f))
# 2. run the checks against /repo with the change applied
if ok:
    m = json.load(open(os.path.join(ROOT, "MANIFEST.json")))
    ids = [c["property_id"] for c in m["checks"]] if which == "all" else which.split(",")
    rc, out = sh(f"git -C /repo apply {os.path.join(dst, 'patch.diff')}")
    assert rc == 0, out
    try:
        for pid in ids:
            t0 = time.time()
            rc, out = sh(f"./check {pid} --tier quick", cwd=ROOT)
            lines = [l for l in out.splitlines() if l.startswith(("VIOLATION", "KNOWN", "MACHINERY")) or " quick seed=" in l]
            meta["ran"].append({"check": pid, "rc": rc, "wall_s": round(time.time() - t0, 1), "lines": lines[:6],
                                "detail": [l for l in out.splitlines() if l.startswith("  scenario")][:2]})
            print(pid, "rc=", rc, lines[-1] if lines else out[-300:])
    finally:
        sh("git -C /repo checkout -- .")
        rc, out = sh("git -C /repo status --short")
        assert out.strip() == "", out
    meta["detected_by"] = [r["check"] for r in meta["ran"] if r["rc"] == 1]
json.dump(meta, open(os.path.join(dst, "meta.json"), "w"), indent=1)
print("detected_by:", meta.get("detected_by"))
