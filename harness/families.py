"""Scenario families per property (DESIGN.md section 6).  Pure generation: which object,
which configuration, which stream, which sequence of public calls.  Seeded by VERIF_SEED."""
from __future__ import annotations

from datetime import timedelta

from catalog import ALL_KINDS, AVERAGES, C05_KINDS, C06_KINDS, IndCfg
from streams import compositions, gen_prices, make_stream

STYLES = ["mixed", "walk", "decimal", "mixed", "walk"]
DEGENERATE = ["flat", "up", "down", "zero_vol", "mixed", "inside", "repeat", "inside_then_walk",
              "flat_then_walk", "zerovol_then_walk"]
ZEROISH = ["flat_then_walk", "zerovol_then_walk", "mixed", "walk"]
# the usual ones and some that do not divide the hour / the day (their grid is anchored at the epoch only)
TFS = {"S": ["S5", "S10", "S30", "S45"], "T": ["T1", "T5", "T15", "T7", "T45"], "H": ["H1", "H4", "H5"],
       "D": ["D1", "D2"]}


def prog_for(pre, chunks):
    prog = [("new", pre)]
    a = pre
    for k in chunks:
        prog.append(("append", a + 1, a + k))
        a += k
    if not chunks:
        prog.append(("calculate", ""))   # everything given at construction: calculate once
    return prog


def rand_cfg(rng, kind, small=True, rv=None, tf=None, fill=False, inp=None):
    """a random parameterisation of one kind (periods 2..6 keep the exact arithmetic exact)"""
    def P(lo=2, hi=5):
        # mostly small periods (exact arithmetic stays exact), now and then a larger or odd one
        return rng.choice([7, 9, 11]) if rng.random() < 0.12 else rng.randint(lo, hi)
    kw = {"rv": rv if rv is not None else 4, "timeframe": tf, "fill": fill}
    if kind in ("SMA", "EMA", "RMA", "WMA"):
        # (a price field, the volume, or one of the candle's own shape properties)
        kw.update(p=P(2, 6), inp=inp or rng.choice(["close", "close", "open", "high", "low", "volume", "close",
                                                     "high_low", "realbody"]))
        if kind == "EMA" and rng.random() < 0.2:
            kw["smoothing"] = rng.choice([2.0, 3.0, 1.5])
    elif kind == "VWMA":
        kw.update(p=P(2, 5))
    elif kind == "HMA":
        kw.update(p=rng.choice([3, 4, 5, 6, 7, 9, 10, 11]), inp=inp or "close")
    elif kind in ("TR", "HLA", "OBV"):
        pass
    elif kind in ("ATR", "DONCHIAN", "HL", "AROON", "VWAP"):
        kw.update(p=P())
    elif kind in ("STDEV", "BBANDS", "ROC"):
        kw.update(p=P(2, 5), inp=inp or rng.choice(["close", "close", "high", "close", "high_low", "shadow_upper"]))
    elif kind in ("RSI",):
        kw.update(p=rng.choice([2, 2, 3, 4, 4, 5]), inp=inp or "close")
    elif kind in ("KC", "Supertrend", "STDEVTHRES"):
        kw.update(p=P(2, 4), mult=rng.choice([None, 2.0, 3.0, 1.5, 1.0]))
        if kind != "Supertrend":
            kw["inp"] = inp or "close"
    elif kind == "MACD":
        f = rng.randint(2, 3)
        kw.update(p=f, p2=f + rng.randint(1, 3), p3=rng.randint(2, 3), inp=inp or "close")
    elif kind == "STOCH":
        kw.update(p=P(2, 5), inp=inp or "close")
        if rng.random() < 0.5:
            kw.update(p2=rng.randint(2, 3), p3=rng.randint(2, 3))
    elif kind == "TSI":
        kw.update(p=rng.choice([2, 3, 4, 5]), inp=inp or "close")
        if rng.random() < 0.3:
            kw["p2"] = rng.randint(2, 3)
    elif kind == "ADX":
        kw.update(p=rng.choice([2, 2, 3, 4]))
        if rng.random() < 0.3:
            kw["p2"] = rng.randint(2, 3)
    elif kind == "Counter":
        kw.update(inp="volume", count_value=rng.choice([3, 8, 0]))
        if rng.random() < 0.4:       # the run length of rising / falling candles
            kw.update(inp=rng.choice(["positive", "negative"]), count_value=rng.choice([True, True, False]))
    return IndCfg(kind, **kw)


def ind_scenario(rng, fid, fam, cfg, n, style, twins=("batch",), tf=None, extra=0, pre_choices=(0, 1, 2),
                 max_chunk=4, regular=None, form="candle", reindex=False):
    st = make_stream(rng, n + extra, style, tf=tf, regular=regular)
    pre, chunks = compositions(rng, n, pre_choices, max_chunk)
    prog = prog_for(pre, chunks)
    if not tf and not cfg.timeframe and not cfg.ctype and rng.random() < 0.12:
        # the newest candle keeps trading: the caller updates it in place, then refreshes its reading
        o, h, l, c, v = st[n - 1][1:]
        c2 = c + rng.choice([1, 2, -1])
        prog.append(("poke", -1, (o, max(h, c2, o), min(l, c2, o), c2, v + rng.choice([0, 1, 3]))))
        prog.append(("calculate_index", "", -1, "fresh"))
        twins = ()
    if not tf and not cfg.timeframe and not cfg.ctype and not reindex and rng.random() < 0.12 and n >= 12 \
            and not any(x[0] == "poke" for x in prog):
        # an older candle is corrected in place (a late trade report), then every reading from there on is
        # recomputed with calculate_index(start, end): all of them, whatever values they replace
        k_ = rng.randint(n // 2, n - 3)
        o, h, l, c, v = st[k_][1:]
        c2 = c + rng.choice([2, 3, -2])
        prog.append(("poke", k_, (o, max(h, c2, o), min(l, c2, o), c2, v)))
        first = k_
        if rng.random() < 0.5 and k_ >= 8:
            # a second, much older candle corrected too: one recompute from the older one covers both
            first = rng.randint(1, k_ - 7)
            o, h, l, c, v = st[first][1:]
            c3 = c + rng.choice([2, 3, -2])
            prog.append(("poke", first, (o, max(h, c3, o), min(l, c3, o), c3, v)))
        prog.append(("calculate_range", "", first))
        twins = ()
    if reindex:
        # refresh the newest reading the way Hexital.calculate_index() does by default (index -1)
        # (index 0 and its negative twin included: the first candle has no predecessor)
        prog.append(("calculate_index", "", rng.choice([-1, 0, 0] if tf else [-1, -2, 0, 0, 1, 3, -n])))
    sc = {"id": fid, "fam": fam, "obj": "ind", "inds": [cfg], "stream": st,
          "prog": prog, "twins": list(twins), "form": form}
    if any(x[0] == "poke" for x in prog):
        sc["mute"] = ["def_shown"]      # the edited candle is no longer the one of the raw stream
    return sc


def hex_scenario(rng, fid, fam, cfgs, n, style, twins=("batch",), hexcfg=None, tf=None, extra=0,
                 pre_choices=(0, 1, 2), max_chunk=4, forms=None, regular=None, form="candle"):
    st = make_stream(rng, n + extra, style, tf=tf, regular=regular)
    pre, chunks = compositions(rng, n, pre_choices, max_chunk)
    return {"id": fid, "fam": fam, "obj": "hex", "inds": cfgs, "hex": hexcfg or {}, "stream": st,
            "prog": prog_for(pre, chunks), "twins": list(twins), "form": form,
            "member_forms": forms or ["obj"] * len(cfgs)}


def pick_tf(rng):
    unit = rng.choice(list(TFS))
    return rng.choice(TFS[unit])


def tf_regular(rng, tf):
    """a sensible base spacing for a timeframe: several candles per bucket"""
    from streams import tf_seconds

    s = tf_seconds(tf)
    return max(1, s // rng.choice([2, 3, 4]))


# ---------------------------------------------------------------------------------------
def fam_kinds(rng, pid, kinds, count, n=(12, 20), styles=STYLES, twins=("batch",), rvs=(4, 4, 2, 0, 5),
              tf_share=0.0):
    out = []
    for t in range(count):
        kind = kinds[t % len(kinds)]
        tf = pick_tf(rng) if rng.random() < tf_share else None
        fill = bool(tf) and rng.random() < 0.4
        cfg = rand_cfg(rng, kind, rv=rng.choice(rvs), tf=tf, fill=fill)
        nn = rng.randint(*n) + (10 if tf else 0) + (2 * max(cfg.p, cfg.p2, cfg.p3) if max(cfg.p, cfg.p2, cfg.p3) > 6 else 0)
        style = rng.choice(styles)
        if pid in ("C06", "C10") and kind in ("STOCH", "RSI", "AROON", "ADX", "TSI", "ROC") and rng.random() < 0.25:
            style = "micro"
        zero_band = kind in ("Supertrend", "KC") and not tf and rng.random() < 0.15
        sc = ind_scenario(rng, f"{pid}/{kind}/{t}", "kinds", cfg, nn, style, twins, tf=tf,
                          # refreshing a reading that is already there (calculate_index, also on the first
                          # candle and by negative index) must give the definition's value again
                          reindex=(rng.random() < {"C10": 0.35, "C04": 0.2, "C05": 0.2, "C06": 0.2}.get(pid, 0.0)),
                          extra=rng.randint(1, 5) if "longer" in twins else 0,
                          regular=tf_regular(rng, tf) if tf and rng.random() < 0.6 else None)
        if pid == "C01" and tf and "batch" in twins and rng.random() < 0.12:
            # timestamps with a fraction of a second (one candle a spacing, never two within a second).
            # The specification does not say what a sub-second stamp means for bucketing; what C01 says does not
            # depend on it: any append schedule ends in the state of one batch over the same candles.  Judged
            # by the batch twin alone.
            from streams import tf_seconds as _tfs

            sp = max(2, _tfs(tf) // rng.choice([2, 3, 4]))
            sc = ind_scenario(rng, f"{pid}/{kind}/{t}/frac", "kinds", cfg, nn, "walk", ("batch",), tf=tf, regular=sp)
            sc["stream"] = [(ts + rng.choice([0, 0.25, 0.5, 0.75]),) + tuple(rest) for (ts, *rest) in sc["stream"]]
            sc["clause_props"] = {"batch": ["C01"], "exc": ["C01"], "stage": [], "def": [], "value": [], "gap": [],
                                  "struct": [], "round": [], "repaint": [], "nonfinite": []}
        if zero_band:
            # zero is a value, for a band too: constant candles whose mid price is exactly multiplier x range,
            # so that the lower band (mid - multiplier * ATR) is exactly 0.0 from the first reading on
            m = cfg.mult if cfg.mult is not None else (3.0 if kind == "Supertrend" else 2.0)
            k_ = rng.choice([1, 2, 3])
            lo, hi = k_ * (2 * m - 1), k_ * (2 * m + 1)
            if lo > 0 and float(lo).is_integer() and float(hi).is_integer():
                lo, hi = int(lo), int(hi)
                mid = (lo + hi) // 2
                sc["stream"] = [(ts, mid, hi, lo, mid, v) for (ts, _o, _h, _l, _c, v) in sc["stream"]]
                if kind == "KC":          # KC's middle is an EMA of the close: close = mid keeps it on the mid price
                    pass
        if (pid in ("C04", "C05", "C10", "C14") and "longer" not in twins and rng.random() < 0.12
                and not any(x[0] in ("poke", "calculate_index") for x in sc["prog"])
                and len([x for x in sc["prog"] if x[0] == "append"]) >= 2):
            # settings the name does not carry (rounding, EMA smoothing, the input of a plain average, a
            # band multiplier) are changed on the live indicator, which is then recalculated -- what
            # recalculate is documented for; from then on the readings follow the new settings
            new = cfg.clone(rv=rng.choice([x for x in (0, 2, 3, 4, 5) if x != cfg.rv]))
            if kind in ("SMA", "EMA", "RMA", "WMA") and rng.random() < 0.6:
                new.inp = rng.choice([x for x in ("close", "open", "high", "low") if x != cfg.inp])
            if kind == "EMA" and rng.random() < 0.6:
                new.smoothing = rng.choice([x for x in (1.5, 2.0, 3.0) if x != (cfg.smoothing or 2.0)])
            if kind in ("KC", "Supertrend", "STDEVTHRES") and rng.random() < 0.6:
                new.mult = rng.choice([x for x in (1.0, 1.5, 2.0, 3.0) if x != cfg.mult])
            if new.build(standalone=False).name == cfg.build(standalone=False).name:
                k_ = max(i for i, x in enumerate(sc["prog"]) if x[0] == "append")
                sc["prog"].insert(k_, ("reconf", 0, 1))
                sc["late"] = [new]
                sc["twins"] = []
                sc["names_fixed"] = True
                sc["id"] += "/reconf"
        out.append(sc)
    return out


CHAIN_SOURCES = [
    ("SMA", {}, ""), ("EMA", {}, ""), ("WMA", {}, ""), ("RMA", {}, ""),
    ("BBANDS", {}, ".BBM"), ("MACD", {}, ".MACD"), ("ATR", {}, ""), ("TR", {}, ""),
    ("DONCHIAN", {}, ".DCM"), ("ROC", {}, ""),
    # sources that are legitimately exactly 0 on quiet openings
    ("ROC", {}, ""), ("MACD", {}, ".histogram"), ("TR", {}, ""), ("OBV", {}, ""), ("TSI", {}, ""),
]
BOOL_SOURCES = [("STDEVTHRES", {}, "")]


def fam_chain(rng, pid, count, targets=("SMA", "EMA", "RMA", "WMA", "HMA"), reverse=False, twins=("batch",)):
    """an average whose input is another indicator that begins late (C04 position independence)"""
    out = []
    for t in range(count):
        skind, _, fld = rng.choice(CHAIN_SOURCES)
        tkind = targets[t % len(targets)]
        if tkind == "Counter":
            skind, _, fld = rng.choice(BOOL_SOURCES)
        src = rand_cfg(rng, skind)
        live = src.build(standalone=False).name
        tgt = rand_cfg(rng, tkind, inp=live + fld, rv=rng.choice([4, 4, 2, 5]))
        if tkind == "Counter":
            tgt = IndCfg("Counter", inp=live, count_value=rng.choice([True, False]))
        tgt.extra = {"name_suffix": "late"}   # keep clear of the source's default-named helpers (C13's topic)
        sc = hex_scenario(rng, f"{pid}/chain{'R' if reverse else ''}/{skind}>{tgt.kind}/{t}", "chain",
                          [tgt, src] if reverse else [src, tgt],
                          rng.randint(16, 24),
                          rng.choice(["mixed", "walk", "decimal", "flat_then_walk", "zerovol_then_walk"]),
                          twins=twins, tf=None)
        sc["names_fixed"] = True
        if reverse:
            # the consumer is calculated before its source: what it then shows is not a property's
            # business, only that it never changes afterwards (C02)
            sc["clause_props"] = {"value": [], "gap": [], "struct": [], "batch": []}
            sc["mute"] = ["value", "gap", "round", "nonfinite", "struct_range", "struct_between",
                          "struct_order", "struct_identity", "struct_step", "struct_type"]
        out.append(sc)
    return out


def fam_manager(rng, pid, count, fills=(False,), has=(False,), lifes=(None,), hexshare=0.25, tzs=(None,),
                units=("S", "T", "H", "D"), collapse_ops=True, twins=(), kinds=("HLA", "SMA", "EMA", "OBV"),
                tag="a", pre=0.0):
    """candle-manager behaviour seen through a standalone indicator or a Hexital: irregular
    second-resolution streams, every unit, construction vs chunks, repeated collapse passes"""
    from streams import tf_seconds

    out = []
    for t in range(count):
        unit = units[t % len(units)]
        n_ = (rng.choice([1, 1, 2, 3, 5, 7, 10, 15, 30, 45, 90, 120]) if unit in "ST"
              else rng.choice([1, 1, 2, 3, 4, 6, 24] if unit == "H" else [1, 1, 2, 3, 4, 6, 7]))
        tf = f"{unit}{n_}" if (rng.random() < 0.92 and unit != "N") else None
        fill = rng.choice(fills) and bool(tf)
        ha = rng.choice(has)
        life = rng.choice(lifes)
        secs = tf_seconds(tf) or 60
        lifespan = timedelta(seconds=int(secs * life)) if life is not None else None
        kind = kinds[t % len(kinds)]
        n = rng.randint(10, 22)
        regular = None
        r = rng.random()
        if tf and r < 0.35:
            regular = max(1, secs // rng.choice([2, 3, 4, 5]))
        elif tf and r < 0.45:
            regular = secs          # exactly one candle per bucket, on the boundary or off it
        ctype = "HA" if ha else None
        tz = rng.choice(tzs)
        if rng.random() < hexshare:
            cfg = rand_cfg(rng, kind, tf=tf if rng.random() < 0.6 else None)
            hexcfg = {"timeframe": None if cfg.timeframe else tf, "fill": fill, "lifespan": lifespan, "ctype": ctype}
            sc = hex_scenario(rng, f"{pid}/hexmgr{tag}/{tf}/{t}", "manager", [cfg], n,
                              rng.choice(["mixed", "walk"] if ha else ["mixed", "walk", "decimal", "flat_then_walk",
                                                                       "zerovol_then_walk"]),
                              twins=twins, hexcfg=hexcfg, tf=tf, regular=regular, pre_choices=(0, 1, 2, n),
                              extra=(rng.randint(2, 6) if "aligned" in twins else 0))
            appends = [i for i, x in enumerate(sc["prog"]) if x[0] == "append"]
            if cfg.timeframe and not hexcfg["timeframe"] and lifespan is None and not ha and appends \
                    and "aligned" not in twins and rng.random() < 0.4:
                # the member (and with it its timeframe) joins a Hexital that already holds candles:
                # its series starts from the whole stream so far (the default manager keeps it all)
                k_ = rng.choice(appends) + 1
                sc["late"], sc["inds"], sc["member_forms"] = [cfg], [], []
                sc["prog"].insert(k_, ("add", 0, rng.choice(["obj", "dict"])))
                sc["twins"] = []
                sc["names_fixed"] = True
                sc["id"] = sc["id"].replace("/hexmgr", "/hexlate")
        else:
            cfg = rand_cfg(rng, kind, tf=tf, fill=fill)
            cfg.lifespan, cfg.ctype = lifespan, ctype
            sc = ind_scenario(rng, f"{pid}/mgr{tag}/{tf}/{t}", "manager", cfg, n, rng.choice(["mixed", "walk"] if ha else ["mixed", "walk", "decimal"]),
                              twins=twins, tf=tf, regular=regular, pre_choices=(0, 1, 2, n),
                              extra=(rng.randint(2, 6) if "aligned" in twins else 0))
        if sc["obj"] == "ind" and rng.random() < 0.25:
            # the candle manager used directly, its timeframe given as string (any case) or enum
            sc["obj"] = "mgr"
            sc["mgr"] = {"tf": tf, "tf_form": rng.choice(["upper", "lower", "enum", "enum"]), "fill": fill,
                         "life": lifespan, "ha": ha}
            sc["inds"] = []
            sc["twins"] = []
            sc["id"] = sc["id"].replace("/mgr", "/bare")
            if sc["prog"] and sc["prog"][-1][0] == "calculate":
                sc["prog"] = sc["prog"][:-1]
        if not tf and life is not None and sc["obj"] in ("ind", "hex") and not ha and rng.random() < 0.3:
            # arrival-time stamps: about one candle a second with a jitter of quarter seconds, a lifespan that
            # is not a whole number of seconds either (the window is exact to the stamp, not to the second)
            if rng.random() < 0.5:
                sc["sub"] = 4
                t_, st2 = 0.0, []
                for (_ts, *rest) in sc["stream"]:
                    st2.append((t_,) + tuple(rest))
                    t_ += rng.choice([0.75, 1.0, 1.0, 1.25, 1.5, 2.0])
                lf = timedelta(seconds=rng.choice([2.25, 3.5, 4.75, 6.0, 7.25]))
            else:
                # 100 ms bars (not a binary fraction of a second) and a lifespan that is a whole number of bars:
                # after every append one candle sits exactly on the cut-off and must be kept
                sc["sub"] = 10
                step_ = rng.choice([1, 2, 3])
                st2 = [(round(i * step_ / 10, 1),) + tuple(rest) for i, (_ts, *rest) in enumerate(sc["stream"])]
                lf = timedelta(milliseconds=100 * step_ * rng.choice([3, 4, 6]))
            sc["stream"] = st2
            if sc["obj"] == "hex":
                sc["hex"] = dict(sc["hex"], lifespan=lf)
            else:
                sc["inds"][0].lifespan = lf
            sc["twins"] = [x for x in sc["twins"] if x not in ("aligned",)]
            sc["form"] = "candle"
        if collapse_ops and tf and rng.random() < 0.5:
            prog = []
            for st in sc["prog"]:
                prog.append(st)
                if rng.random() < 0.4:
                    prog.append(("collapse",))
            sc["prog"] = prog
        if tz:
            sc["tz"] = tz
            sc["form"] = rng.choice(["candle", "candle", "dict", "dict_iso", "candle_iso", "list", "candle_fold"])
        elif pre and not sc.get("sub") and sc["obj"] in ("ind", "mgr") and rng.random() < pre:
            # the caller's Candle objects went through a Heikin-Ashi consumer without a timeframe first (it
            # converts the caller's objects in place): what this manager is fed are those objects -- Heikin-Ashi
            # values, tagged, the original values saved on them.
            # NOT USED BY ANY CHECK (pre = 0 everywhere; DESIGN.md 12.5 round 10): on the unchanged library a
            # merge into such a candle restores the stamp saved by the other consumer, the bucket label is lost
            # and the filler does not terminate -- objects carrying another manager's conversion state are not a
            # "candle stream" in the properties' sense, there is no baseline to compare against.
            sc["form"] = "candle_pre"
            sc["twins"] = []
            # (the definitional clauses are worded for plain raw candles; the operational ones -- the walk, the
            # filler "flat at the previous candle's close", the conversion -- apply as they stand)
            sc["mute"] = ["def_shown", "def_clean", "def_tag"]
            sc["stream"] = make_stream(rng, len(sc["stream"]), rng.choice(["mixed", "walk"]), tf=tf, regular=regular)
        out.append(sc)
    return out


def fam_longgap(rng, pid, count):
    """a feed that pauses for a long time (a weekend on a one-minute timeframe, a quarter of an hour on a
    one-second one): one gap of about a thousand buckets among short ones, through a bare manager and through
    an indicator; "from the first bucket to the last" has no upper limit on the length of a gap"""
    from streams import tf_seconds

    out = []
    for t in range(count):
        tf = rng.choice(["S1", "S5", "T1", "T5", "H1"])
        secs = tf_seconds(tf)
        buckets = [999, 1000, 1001, 1024, 1440, 2000][t % 6]
        n = rng.randint(6, 9)
        prices = gen_prices(rng, n, "walk")
        at = rng.randrange(1, n - 1)            # the long pause comes before candle `at` (0-based)
        ts, cur = [], rng.choice([0, max(1, secs // 2)])
        for i in range(n):
            if i:
                cur += buckets * secs if i == at else rng.choice([secs, secs, 2 * secs, 3 * secs, max(1, secs // 2)])
            ts.append(cur)
        st = [(a,) + p for a, p in zip(ts, prices)]
        pre, chunks = compositions(rng, n, (0, 1, at, at + 1, n), 3)
        bare = t % 2 == 0
        cfg = rand_cfg(rng, "HLA", tf=tf, fill=True)
        sc = {"id": f"{pid}/longgap/{tf}/{buckets}/{t}", "fam": "manager", "obj": "mgr" if bare else "ind",
              "inds": [] if bare else [cfg], "stream": st, "prog": prog_for(pre, chunks), "twins": [], "form": "candle",
              "names_fixed": True}
        if bare:
            sc["mgr"] = {"tf": tf, "tf_form": "upper", "fill": True, "life": None, "ha": False}
            sc["prog"] = [x for x in sc["prog"] if x[0] != "calculate"]
        out.append(sc)
    return out


LOOK1 = ["EMA", "RMA", "ATR", "KC", "RSI", "MACD", "TSI", "ADX", "Supertrend", "OBV", "VWAP", "TR"]
LOOKP = ["SMA", "WMA", "VWMA", "STDEV", "BBANDS", "ROC", "HL", "AROON", "DONCHIAN", "STOCH", "HMA"]


def fam_survivors(rng, pid, count):
    """C15's second clause at its edge: a warmed-up indicator, then a chunk so large that exactly
    the look-back the property names survives the trim (one predecessor for the recursive kinds,
    a window for the windowed ones), now and then one candle more or fewer.  One candle a minute
    (or one per bucket), so the window holds lifespan/interval + 1 candles."""
    from streams import tf_seconds

    out = []
    for t in range(count):
        rec = t % 3 != 2
        kind = rng.choice(LOOK1 if rec else LOOKP)
        tf = rng.choice([None, None, "T1", "T5", "S30"])
        secs = tf_seconds(tf) or 60
        cfg = rand_cfg(rng, kind, tf=tf)
        look = 1 if rec else max(getattr(cfg, "p", 2) or 2, getattr(cfg, "p2", 0) or 0, getattr(cfg, "p3", 0) or 0)
        life = rng.randint(max(3, look + 1), look + 7)            # window = life + 1 candles
        warm = 14 + 2 * look
        m = max(1, life + 1 - look + rng.choice([0, 0, 0, 0, -1, -2]))   # survivors = look (or a few more)
        n = warm + m + rng.choice([0, 1, 3])
        hexobj = rng.random() < 0.3
        st = make_stream(rng, n, rng.choice(["mixed", "walk"]), tf=tf, regular=secs, start_on=rng.random() < 0.7)
        pre = rng.choice([0, 1, 3])
        prog = [("new", pre)]
        a = pre
        while a < warm:
            k = min(warm - a, rng.choice([1, 1, 1, 2]))
            prog.append(("append", a + 1, a + k))
            a += k
        prog.append(("append", a + 1, a + m))
        a += m
        while a < n:
            prog.append(("append", a + 1, a + 1))
            a += 1
        lifespan = timedelta(seconds=secs * life)
        if hexobj:
            hexcfg = {"timeframe": None, "fill": False, "lifespan": lifespan, "ctype": None}
            sc = {"id": f"{pid}/survhex/{kind}/{tf}/{t}", "fam": "manager", "obj": "hex", "inds": [cfg], "hex": hexcfg,
                  "stream": st, "prog": prog, "twins": ["untrimmed"], "form": "candle", "member_forms": ["obj"]}
        else:
            cfg.lifespan = lifespan
            sc = {"id": f"{pid}/surv/{kind}/{tf}/{t}", "fam": "manager", "obj": "ind", "inds": [cfg], "stream": st,
                  "prog": prog, "twins": ["untrimmed"], "form": "candle"}
        out.append(sc)
    return out


# days on which the zone changes its offset (the skipped / repeated local hour is around 02:00)
TRANSITIONS = {"America/New_York": ["2024-03-10", "2024-11-03"], "Europe/London": ["2024-03-31", "2024-10-27"],
               "Australia/Lord_Howe": ["2024-04-07", "2024-10-06"], "Pacific/Chatham": ["2024-04-07", "2024-09-29"],
               "America/St_Johns": ["2024-03-10", "2024-11-03"]}


def fam_transitions(rng, pid, count):
    """streams that run through the local hours a DST zone skips or repeats, under that zone"""
    out = []
    zones = list(TRANSITIONS)
    for t in range(count):
        tz = zones[t % len(zones)]
        day = rng.choice(TRANSITIONS[tz])
        tf = rng.choice(["T1", "T5", "T15", "T30", "H1", "H2", "H4", "S30", "T10", "D1"])
        from streams import tf_seconds

        secs = tf_seconds(tf)
        n = rng.randint(14, 24)
        spacing = max(180, min(secs // rng.choice([1, 2, 3]), 1800))
        start = rng.choice([0, 1800, 3600, 4500, 5400, 6600])
        kind = rng.choice(["HLA", "SMA", "EMA", "OBV"])
        cfg = rand_cfg(rng, kind, tf=tf, fill=rng.random() < 0.3)
        if rng.random() < 0.35:
            # a lifespan whose window reaches across the hour the zone skips or repeats
            cfg.lifespan = timedelta(seconds=spacing * rng.choice([4, 6, 9]))
        st = make_stream(rng, n, rng.choice(["mixed", "walk"]), tf=tf, regular=spacing, t0=start,
                         start_on=rng.random() < 0.5)
        pre, chunks = compositions(rng, n, (0, 1, 2, n), 4)
        out.append({"id": f"{pid}/dst/{tz}/{day}/{tf}/{t}", "fam": "manager", "obj": "ind", "inds": [cfg],
                    "stream": st, "prog": prog_for(pre, chunks), "twins": [], "tz": tz, "base": day,
                    "form": rng.choice(["candle", "candle", "dict", "dict_iso", "list", "candle_fold"])})
    return out


def fam_disorder(rng, pid, count):
    """beyond the property (it quantifies over non-decreasing streams): one candle goes back in
    time; the library must then behave as the specification's walk does -- merge it when it still
    belongs to the forming bucket, raise InvalidCandleOrder otherwise"""
    out = []
    for sc in fam_manager(rng, pid, count, collapse_ops=False, hexshare=0.0, tag="d"):
        st = list(sc["stream"])
        has_tf = sc["mgr"].get("tf") if sc["obj"] == "mgr" else sc["inds"][0].timeframe
        if len(st) < 6 or not has_tf:
            continue
        i = rng.randrange(3, len(st))
        back = rng.choice([1, 2, 30, 600, 7200, 100000])
        st[i] = (max(0, st[i - 1][0] - back),) + st[i][1:]
        sc["stream"] = st
        sc["id"] = sc["id"].replace("/mgrd/", "/disorder/")
        sc["clause_props"] = {"exc": ["C03"], "stage": ["C03"], "def": [], "value": [], "gap": []}
        sc["mute"] = ["def_shown", "value", "gap", "struct_between", "repaint"]
        out.append(sc)
    return out


def fam_aware(rng, pid, count, twins=()):
    """timezone-aware timestamps whose UTC offset is not a multiple of the timeframe: an aware
    timestamp is an instant, buckets lie on the UTC grid whatever offset it is written with"""
    out = []
    for sc in fam_manager(rng, pid, count, units=("H", "D", "T", "H"), fills=(False, True), hexshare=0.2,
                          twins=twins, tag="w"):
        sc["form"] = "aware:" + str(rng.choice([330, -300, 60, 345, -210, 570]))
        sc["id"] = sc["id"].replace("/mgrw/", "/aware/").replace("/hexmgrw/", "/awarehex/").replace("/barew/", "/awarebare/")
        out.append(sc)
    return out


TZS = ["UTC", "Asia/Kolkata", "Asia/Kathmandu", "America/New_York", "Europe/London",
       "Australia/Lord_Howe", "Pacific/Chatham", "America/St_Johns"]


FORMS = ["candle", "candle", "candle", "dict", "list", "list_ts_last", "dict_iso", "dict_cap", "candle_iso",
         "dict_mix", "dict_mix2"]


def decorate(rng, scs):
    """cross-cutting variation applied to every family: how the caller spells things must not
    matter -- input encoding of the candles, spelling of the timeframe (upper / lower case / enum),
    a user label on the indicator name (possibly with a dot)"""
    for sc in scs:
        if sc["obj"] not in ("ind", "hex"):
            continue
        if "form" not in sc or sc.get("form") == "candle":
            if rng.random() < 0.35:
                sc["form"] = rng.choice(FORMS)
            elif (rng.random() < (0.15 if any(c.timeframe for c in sc["inds"]) else 0.05) and not sc.get("tz")
                  and not sc.get("base")):
                # timezone-aware timestamps with an offset that is not a multiple of most timeframes
                sc["form"] = "aware:" + str(rng.choice([330, -300, 60, 345, -210]))
        if (sc["obj"] == "hex" and sc.get("inds") and not sc.get("scale")
                and all(f == "obj" for f in sc.get("member_forms", ["obj"]))):
            # members given as objects, as configuration dicts or as another indicator's settings -- mixed
            # within one Hexital (the registry must keep the order the caller gave)
            if rng.random() < 0.35:
                sc["member_forms"] = [rng.choice(["obj", "obj", "dict", "settings", "used"]) for _ in sc["inds"]]
        if sc["obj"] == "hex" and (sc.get("hex", {}).get("timeframe") or sc.get("hex", {}).get("ctype")) \
                and rng.random() < 0.2:
            sc["hex"] = dict(sc["hex"], as_class_attrs=True)
        mem = sc["inds"] + sc.get("late", [])
        tfs = [c.timeframe for c in mem if c.timeframe]
        # (not in the work scenarios: the recorder there counts every evaluation in the process, the
        # neighbour's too)
        if sc.get("form", "candle") == "candle" and not sc.get("scale") and not sc.get("work") and rng.random() < 0.15:
            # one feed, several consumers: the same Candle objects also go to an unrelated standalone
            # indicator with a timeframe (before or after the observed object gets them)
            sc["feed_to"] = {"tf": rng.choice(tfs + ["T5", "S30"]), "ha": rng.random() < 0.6,
                             "fill": rng.random() < 0.2, "order": rng.choice(["first", "after"])}
            # (the neighbour fills gaps only on one of the scenario's own timeframes and without Heikin-Ashi: on
            #  a finer one a stream spanning hours means thousands of fillers rebuilt on every append -- the
            #  neighbour, not the observed object, then runs into the per-call time limit)
            if sc["feed_to"]["ha"] or sc["feed_to"]["tf"] not in tfs:
                sc["feed_to"]["fill"] = False
        for j, c in enumerate(mem):
            if c.timeframe and "_tf_form" not in c.extra:
                # members that share a timeframe spell it differently more often than not: the shared
                # manager must be found whatever the spelling of the one who comes second
                share = tfs.count(c.timeframe) > 1
                if rng.random() < (0.6 if share else 0.3):
                    c.extra = dict(c.extra, _tf_form=rng.choice(["lower", "enum"]))
            if (not sc.get("names_fixed") and c.kind != "Amorph" and "name_suffix" not in c.extra
                    and "fullname_override" not in c.extra and rng.random() < 0.08):
                c.extra = dict(c.extra, name_suffix=rng.choice(["x", "v1.5", "b", "a.b"]))
    return scs


def _touch_zero(sc):
    lo = min(x[3] for x in sc["stream"])
    sc["stream"] = [(ts, o - lo, h - lo, l - lo, c - lo, v) for ts, o, h, l, c, v in sc["stream"]]
    return sc


def scenarios(pid, tier, rng):
    scs = decorate(rng, _scenarios(pid, tier, rng))
    if pid in ("C04", "C05", "C06"):
        # "equal the definitions computed from the raw candles": the candles the readings are computed on
        # must be the candles that were fed -- a reading that follows its formula over candles that are
        # not the input (a field lost or changed on the way in) is not the definition's value
        for sc in scs:
            cp = dict(sc.get("clause_props", {}))
            cp.setdefault("stage", [pid])
            cp.setdefault("def", [pid])
            sc["clause_props"] = cp
    return scs


def fam_amorph_long(rng, pid, count, twins=("batch",)):
    """one-series movement functions wrapped as indicators with a look-back LONGER than the history in front
    of the early candles, on lists that are pre-loaded or grow in chunks (round 12): a window that runs below
    index 0 must stop there, not wrap to the newest candles"""
    out = []
    for t in range(count):
        fn = MOVE1[t % len(MOVE1)]
        cfg = IndCfg("Amorph", fn=fn, inp=rng.choice(["close", "high", "low", "volume"]), p=rng.choice([6, 8, 12, 20]))
        n = rng.randint(5, 14)
        sc = ind_scenario(rng, f"{pid}/amorphlong/{fn}/{t}", "amorph", cfg, n, rng.choice(["walk", "mixed", "outside"]),
                          twins, extra=rng.randint(1, 4) if "longer" in twins else 0,
                          pre_choices=(0, 2, 3, n // 2, n), max_chunk=5)
        sc["clause_props"] = dict(sc.get("clause_props", {}), exc=[pid])
        sc["names_fixed"] = True
        out.append(sc)
    return out


# kinds whose reading is built from window extremes of high and low
OUTSIDE_KINDS = ["DONCHIAN", "HL", "HLA", "DONCHIAN", "KC", "Supertrend", "TR", "ATR"]


def _scenarios(pid, tier, rng):
    q = tier == "quick"
    k = (lambda a, b: a if q else b)
    if pid == "C04":
        av = sorted(AVERAGES)
        return (fam_kinds(rng, pid, av, k(150, 700), rvs=(4, 4, 2, 0, 5, 3, 8), tf_share=0.2)
                + fam_kinds(rng, pid + "z", av, k(80, 400), styles=ZEROISH, rvs=(4, 0, 0, 1, 2))
                + fam_chain(rng, pid, k(110, 500)))
    if pid == "C05":
        return (fam_kinds(rng, pid, sorted(C05_KINDS), k(280, 1300), tf_share=0.25)
                + fam_chain(rng, pid, k(70, 300), targets=("STDEV", "BBANDS", "KC", "STDEVTHRES", "Counter", "STDEV", "BBANDS"))
                # outside bars (round 12): both window extremes move in one candle
                + fam_kinds(rng, pid + "o", OUTSIDE_KINDS, k(40, 200), styles=["outside"], tf_share=0.15))
    if pid == "C06":
        return (fam_kinds(rng, pid, sorted(C06_KINDS), k(280, 1300), tf_share=0.25)
                + fam_chain(rng, pid, k(70, 300), targets=("RSI", "MACD", "ROC", "STOCH", "TSI")))
    if pid == "C09":
        return (fam_kinds(rng, pid, ALL_KINDS, k(300, 1400), styles=DEGENERATE, twins=())
                + fam_kinds(rng, pid, ALL_KINDS, k(80, 500), styles=DEGENERATE, twins=(), tf_share=1.0)
                + fam_chain(rng, pid, k(60, 400), twins=(),
                            targets=("STDEV", "BBANDS", "KC", "STDEVTHRES", "RSI", "MACD", "ROC", "STOCH", "TSI",
                                     "SMA", "EMA", "RMA", "WMA", "HMA"))
                # "calculating never raises" includes the other ways of calculating: recalculate,
                # calculate_index (positive, negative, Hexital's default), on members with their own timeframe
                + fam_maintenance(rng, pid, k(50, 300)))
    if pid == "C10":
        return (fam_kinds(rng, pid, ALL_KINDS, k(420, 1800), twins=(), tf_share=0.3)
                + fam_readd(rng, pid, k(24, 150), twins=())
                + fam_kinds(rng, pid + "o", OUTSIDE_KINDS + ["STOCH", "AROON", "BBANDS"], k(48, 240),
                            styles=["outside"], twins=(), tf_share=0.15))
    if pid == "C01":
        return (fam_kinds(rng, pid, ALL_KINDS, k(200, 1200), tf_share=0.6)
                + fam_chain(rng, pid, k(40, 200)) + fam_amorph(rng, pid, k(64, 320))
                + fam_hexital(rng, pid, k(50, 300), twins=("batch",))
                + fam_aware(rng, pid, k(24, 150), twins=("batch",))
                + fam_amorph_long(rng, pid, k(32, 160)))
    if pid == "C02":
        return (fam_kinds(rng, pid, ALL_KINDS, k(260, 1500), twins=("longer",), tf_share=0.5)
                + fam_amorph(rng, pid, k(40, 240), twins=("longer",))
                + fam_chain(rng, pid, k(40, 240), targets=("STDEV", "TSI", "SMA", "EMA", "RSI", "BBANDS", "ROC"),
                            reverse=True, twins=())
                + fam_hexital(rng, pid, k(40, 240), twins=("longer",))
                # a lifespan (and Heikin-Ashi on top of it): the candles a shorter history shows and a longer one
                # still retains are the same candles
                + fam_manager(rng, pid, k(40, 240), has=(True, False), lifes=(2, 3, 5, 8), units=("N",),
                              twins=("aligned",), tag="l", hexshare=0.3)
                # ... and on gap-filled timeframes: what is closed stays where it is, nothing is slipped in
                # between two closed candles later
                + [dict(sc, clause_props=dict(sc.get("clause_props", {}), **{"def": ["C02"]}))
                   # (what the definition gives for the stream so far is final by construction: a closed candle
                   #  that is not the definition's is one that still has to change)
                   for sc in fam_manager(rng, pid, k(120, 500), fills=(True,), lifes=(2, 2, 3, 4, 6), twins=(), tag="f",
                                         collapse_ops=False)]
                + fam_amorph_long(rng, pid, k(40, 200), twins=("longer",)))
    if pid == "C03":
        return (fam_manager(rng, pid, k(350, 1700)) + fam_disorder(rng, pid, k(40, 200))
                + fam_aware(rng, pid, k(20, 150))
                # several collapsed series inside one Hexital (members on different timeframes, candles at
                # construction or appended): each is the resampling of the same stream
                + fam_hexital(rng, pid, k(30, 200), twins=()))
    if pid == "C12":
        scs = fam_manager(rng, pid, k(420, 2000), fills=(True,), twins=("batch",)) + fam_longgap(rng, pid, k(6, 24))
        for sc in scs:
            # "the outcome is the same for every append schedule": the filled series with everything on it
            sc["clause_props"] = dict(sc.get("clause_props", {}), batch=["C12", "C01"])
        return scs
    if pid == "C11":
        return (fam_manager(rng, pid, k(220, 1400), has=(True,), twins=("batch",))
                + fam_manager(rng, pid, k(60, 300), has=(True,), twins=("batch",), kinds=("EMA", "RSI", "ATR", "KC"),
                              tag="b")
                # with a lifespan and no timeframe the recurrence still has to be that of the whole stream
                + fam_manager(rng, pid, k(60, 300), has=(True,), lifes=(3, 5, 8), units=("N",), twins=(), tag="c")
                # Heikin-Ashi selected on a Hexital whose members sit on several timeframes of their own
                + fam_hexital(rng, pid, k(30, 200), twins=(), force_ha=True)
                # zero is a price too: the whole stream shifted down so that its lowest low is exactly 0
                + [_touch_zero(sc) for sc in fam_manager(rng, pid, k(40, 240), has=(True,), twins=("batch",), tag="z")])
    if pid == "C15":
        return (fam_manager(rng, pid, k(160, 1000), lifes=(0, 1, 2, 3, 5, 8, 0.5), fills=(False, True))
                + fam_manager(rng, pid, k(160, 1000), lifes=(6, 8, 12, 20), twins=("untrimmed",),
                              kinds=("SMA", "EMA", "RSI", "STOCH", "ATR", "MACD", "BBANDS", "OBV"), tag="b")
                + fam_survivors(rng, pid, k(90, 600)))
    if pid == "C18":
        return (fam_manager(rng, pid, k(400, 1600), tzs=TZS[1:], fills=(False, True), hexshare=0.15,
                            lifes=(None, None, None, 6, 12, 30))
                + fam_transitions(rng, pid, k(160, 600)) + fam_aware(rng, pid, k(20, 150)))
    if pid == "C16":
        return (fam_movement(rng, pid, k(160, 800)) + fam_patterns(rng, pid, k(80, 400))
                + fam_amorph(rng, pid, k(80, 400))
                # wrapped functions as Hexital members (own timeframes) under maintenance calls: recomputing an
                # index, by positive, negative or default index, gives the function's answer for that candle
                + fam_maintenance(rng, pid, k(60, 300), wrappers=True))
    if pid == "C17":
        return fam_movement(rng, pid, k(180, 900)) + fam_patterns(rng, pid, k(180, 900))
    if pid == "C14":
        return fam_maintenance(rng, pid, k(220, 1400)) + fam_readd(rng, pid, k(40, 300))
    if pid == "C13":
        return fam_interference(rng, pid, k(90, 1000))
    if pid == "C19":
        return (fam_reads(rng, pid, k(280, 1200), forms=("candle", "dict", "list", "list_ts_last", "dict_iso"))
                # "delivers the same candle to every timeframe of a Hexital": also to one whose last member has
                # left (the timeframe is still listed and can be joined again)
                + fam_readd(rng, pid, k(20, 120), twins=()) + fam_relabel(rng, pid, k(16, 100)))
    if pid == "C20":
        return fam_reads(rng, pid, k(300, 1300), touches=False) + fam_relabel(rng, pid, k(30, 200))
    if pid == "C08":
        # (+ a member that leaves, candles keep arriving, and a member on the same timeframe joins again)
        return fam_hexital(rng, pid, k(220, 1300)) + fam_readd(rng, pid, k(24, 160), twins=("standalone",))
    if pid == "C07":
        return fam_work(rng, pid, k(110, 600)) + fam_scale(rng, pid, k(40, 260), hists=k((60, 300), (100, 1600)))
    raise KeyError(pid)


# ---------------------------------------------------------------------------------------
# maintenance programs (C14), interference (C13), reads (C19, C20), Hexital = standalone (C08),
# work (C07).  Programs are grown against a live shadow session so that index arguments are
# valid for the candle lists as they are at that point (the properties' preconditions).
NESTED = ["KC", "STOCH", "TSI", "ADX", "BBANDS", "HMA", "MACD", "Supertrend", "RSI", "STDEVTHRES", "ATR"]
SIMPLE = ["EMA", "SMA", "WMA", "RMA", "TR", "OBV", "ROC", "VWAP", "AROON", "DONCHIAN", "HL", "HLA", "VWMA",
          "STDEV"]


def _uniq(cfgs):
    """distinct top-level names (Hexital keys its registry by name)"""
    seen, out = set(), []
    for c in cfgs:
        n = c.build(standalone=False).name
        if n not in seen:
            seen.add(n)
            out.append(c)
    return out


def grow_program(rng, sc, n, steps, ops, pre=None):
    """extend sc['prog'] with `steps` random maintenance calls, using a shadow run to keep
    calculate_index arguments inside the lists and aimed at fully calculated indicators"""
    from record import Session
    from streams import base_for

    tfs = [c.timeframe for c in sc["inds"] + sc.get("late", [])] + [sc.get("hex", {}).get("timeframe")]
    sh = Session(sc, base_for([t for t in tfs if t]))
    pre = rng.choice([0, 1, 2, 3, n // 2]) if pre is None else pre
    prog = [("new", pre)]
    pos = pre
    dirty = set()          # indicators with readings pending (purged / added / never calculated)
    late_left = list(range(len(sc["inds"]), len(sc["inds"]) + len(sc.get("late", []))))

    def shadow(step):
        try:
            sh.run(step)
            return True
        except Exception:
            return False

    ok = shadow(prog[0])
    if ok:
        dirty = set(sh.active)
    hexobj = sc["obj"] == "hex"
    for _ in range(steps):
        if not ok:
            break
        op = rng.choice(ops)
        names = [sh.live[i] for i in sh.active]
        tgt = rng.choice(names + [""]) if hexobj and names else ""
        step = None
        if op == "append" and pos < n:
            k = min(n - pos, rng.randint(1, 3))
            step = ("append", pos + 1, pos + k)
            pos += k
            dirty = set()
        elif op == "calculate":
            step = ("calculate", tgt)
            dirty = set() if not tgt else {i for i in dirty if sh.live[i] != tgt}
        elif op == "purge":
            step = ("purge", tgt)
            dirty |= set(sh.active) if not tgt else {i for i in sh.active if sh.live[i] == tgt}
        elif op == "recalculate":
            step = ("recalculate", tgt)
            dirty = set() if not tgt else {i for i in dirty if sh.live[i] != tgt}
        elif op == "calculate_index":
            cands = [i for i in sh.active if i not in dirty and (not tgt or sh.live[i] == tgt)]
            if not dirty or (tgt and cands):
                who = cands if tgt else list(sh.active)
                if who:
                    L = min(len(sh.indicator(i).candles) for i in who)
                    if L >= 1:
                        idx = rng.randrange(L)
                        if rng.random() < 0.5:
                            idx -= L
                        step = ("calculate_index", tgt, idx)
                        if hexobj and rng.random() < 0.25:
                            step = ("calculate_index", tgt, -1, "default")
        elif op == "add" and hexobj and late_left:
            i = late_left.pop(0)
            step = ("add", i, rng.choice(["obj", "dict", "settings", "used"]))
            dirty.add(i)
        elif op == "readd" and hexobj and sh.active:
            # registering an indicator that is already registered (e.g. re-applying the Hexital's own
            # indicator settings): a fresh object over candles that already carry its readings
            i = rng.choice(list(sh.active))
            step = ("add", i, rng.choice(["obj", "dict", "settings"]))
        elif op == "remove" and hexobj and len(sh.active) > 1:
            tgt = rng.choice(names)
            step = ("remove", tgt)
            if rng.random() < 0.15:
                step = ("remove", "NOT_REGISTERED_9")       # removing an unknown name changes nothing
        elif op == "append" and rng.random() < 0.5:
            step = ("append", pos + 1, pos)                  # an empty chunk
        if step:
            prog.append(step)
            ok = shadow(step)
            # shared default-named helpers (TR) are purged with whichever owner is purged:
            # the other owners recompute them on their next calculate -- still "clean"
    if pos < n and rng.random() < 0.7:
        prog.append(("append", pos + 1, n))
    prog.append(("calculate", ""))
    sc["prog"] = prog
    return sc


MAINT_OPS = ["append", "append", "append", "calculate", "purge", "recalculate", "calculate_index",
             "calculate_index", "add", "remove", "readd"]


def fam_maintenance(rng, pid, count, wrappers=False):
    out = []
    for t in range(count):
        if wrappers and t % 3 == 0:
            t += 1          # Hexitals only
        n = rng.randint(14, 22)
        if t % 3 == 0:       # standalone indicator
            cfg = rand_cfg(rng, rng.choice(NESTED + SIMPLE), tf=pick_tf(rng) if rng.random() < 0.3 else None,
                           rv=rng.choice([4, 4, 0, 1, 2, 3, 5]))
            sc = {"id": f"{pid}/ind/{cfg.kind}/{t}", "fam": "maint", "obj": "ind", "inds": [cfg],
                  "stream": make_stream(rng, n, "mixed", tf=cfg.timeframe), "twins": ["batch"],
                  "clause_props": {"exc": [pid], "batch": [pid], "value": [pid]}}
            ops = [o for o in MAINT_OPS if o not in ("add", "remove")]
        else:
            tf = pick_tf(rng) if rng.random() < 0.35 else None
            kinds = [rng.choice(NESTED), rng.choice(SIMPLE), rng.choice(NESTED + SIMPLE)]
            # one timeframe shared by some members, or (every fourth Hexital) a ladder of different ones:
            # several managers that do not exist yet are then created by one registration
            ladder = rng.choice([["S10", "S30", "T1"], ["T1", "T5", "T15"], ["S5", "S10", "S30"]]) if t % 4 == 1 else None
            if ladder:
                tf = ladder[0]
            tf_of = (lambda: rng.choice(ladder + [None])) if ladder else (lambda: tf if rng.random() < 0.5 else None)
            cfgs = _uniq([rand_cfg(rng, k, tf=tf_of(), rv=rng.choice([4, 4, 0, 2, 3, 5])) for k in kinds])
            if wrappers:
                for _ in range(2):
                    am = amorph_cfg(rng)
                    am.timeframe = tf_of()
                    cfgs = _uniq(cfgs + [am])
            late = _uniq(cfgs + [rand_cfg(rng, rng.choice(NESTED + SIMPLE), tf=tf_of())])[len(cfgs):]
            quiet_ha = t % 5 == 2 and not ladder
            sc = {"id": f"{pid}/hex/{'+'.join(c.kind for c in cfgs)}/{t}", "fam": "maint", "obj": "hex",
                  "inds": cfgs, "late": late,
                  # (every fifth: a Heikin-Ashi Hexital on a timeframe of its own, fed ticks that trade nothing)
                  "hex": ({"ctype": "HA", "timeframe": tf or "T1"} if quiet_ha else {}),
                  "stream": make_stream(rng, n + (8 if quiet_ha else 0), "repeat" if quiet_ha else "mixed",
                                        tf=(tf or "T1") if quiet_ha else tf,
                                        regular=(tf_regular(rng, tf or "T1") if (ladder or quiet_ha) else None)),
                  "twins": ["final_batch"], "member_forms": ["obj"] * len(cfgs),
                  "clause_props": {"exc": [pid], "batch": [pid], "value": [pid]}}
            ops = MAINT_OPS + (["calculate_index"] * 5 if wrappers else [])
        sc["names_fixed"] = True
        out.append(grow_program(rng, sc, n, rng.randint(5, 10), ops))
    return out


def fam_readd(rng, pid, count, twins=("final_batch",)):
    """an indicator that is alone on its timeframe is removed, candles keep arriving, then an
    indicator on the same timeframe is registered again: it must end with the batch readings"""
    out = []
    for t in range(count):
        tf = pick_tf(rng)
        a = rand_cfg(rng, rng.choice(SIMPLE))
        b = rand_cfg(rng, rng.choice(SIMPLE + NESTED), tf=tf)
        c = rand_cfg(rng, rng.choice(SIMPLE + NESTED), tf=tf) if rng.random() < 0.5 else b.clone()
        if t % 3 == 2:
            # the same generated name, other settings the name does not carry (rounding, input): what the
            # indicator that left wrote must be gone, the newcomer's readings are its own
            c = b.clone(rv=rng.choice([0, 1, 2]))
            if c.kind in ("SMA", "EMA", "RMA", "WMA"):
                c.inp = rng.choice([x for x in ("close", "open", "high", "low", "volume") if x != b.inp])
        n = rng.randint(18, 26) if t % 3 != 2 else rng.randint(28, 34)
        names = [x.build(standalone=False).name for x in (a, b)]
        cname = c.build(standalone=False).name
        if names[0] == names[1] or cname == names[0]:
            continue
        if cname == names[1] and t % 3 != 2:
            c = b.clone()          # (unless the variant above is meant) same name, same indicator
        # (in the same-name variant the first indicator leaves after its warm-up, one candle per bucket)
        cuts = sorted(rng.sample(range(2, n - 2) if t % 3 != 2 else range(n // 2 + 2, n - 2), 3))
        prog = [("new", rng.choice([0, 2])), ("append", rng.choice([1, 3]), cuts[0]) ]
        prog[1] = ("append", prog[0][1] + 1, cuts[0])
        prog += [("remove", names[1]), ("append", cuts[0] + 1, cuts[1])]
        if rng.random() < 0.5:
            prog.append(("append", cuts[1] + 1, cuts[2]))
            pos = cuts[2]
        else:
            pos = cuts[1]
        prog += [("add", 2, rng.choice(["obj", "dict"])), ("append", pos + 1, n), ("calculate", "")]
        from streams import tf_seconds as _tfs

        regular = tf_regular(rng, tf) if t % 3 != 2 else _tfs(tf)
        out.append({"id": f"{pid}/readd/{tf}/{t}", "fam": "maint", "obj": "hex", "inds": [a, b], "late": [c],
                    "names_fixed": True,
                    "hex": {}, "stream": make_stream(rng, n, "mixed", tf=tf, regular=regular), "prog": prog,
                    "twins": list(twins), "member_forms": ["obj", "obj"],
                    "clause_props": {"exc": [pid], "batch": [pid], "value": [pid], "stage": [pid],
                                     "def": [pid], "standalone": [pid]}})
    return out


PAIRS = [
    (("EMA", dict(p=2)), ("EMA", dict(p=20))),
    (("RSI", dict(p=2)), ("RSI", dict(p=20))),
    (("BBANDS", dict(p=3)), ("SMA", dict(p=3))),
    (("BBANDS", dict(p=4)), ("STDEV", dict(p=4))),
    (("ATR", dict(p=3)), ("TR", {})),
    (("KC", dict(p=3)), ("TR", {})),
    (("KC", dict(p=3)), ("Supertrend", dict(p=3))),
    (("ADX", dict(p=2)), ("ATR", dict(p=2))),
    (("Supertrend", dict(p=2)), ("HLA", {})),
    (("SMA", dict(p=3)), ("SMA", dict(p=30))),
    (("ROC", dict(p=2)), ("OBV", {})),
]


def fam_interference(rng, pid, count):
    out = []
    for t in range(count):
        if t % 4 == 3:
            cfgs = _uniq([rand_cfg(rng, k) for k in rng.sample(NESTED + SIMPLE, 3)])
        else:
            (ka, pa), (kb, pb) = PAIRS[t % len(PAIRS)]
            cfgs = [IndCfg(ka, **pa), IndCfg(kb, **pb)]
            if rng.random() < 0.5:
                cfgs.reverse()
            if rng.random() < 0.3:
                cfgs += _uniq(cfgs + [rand_cfg(rng, rng.choice(SIMPLE))])[len(cfgs):]
        if t % 12 == 5:
            # two wrappers of the same family written the economical way: the arguments they share in one
            # dict that both get as `args`, what differs as keywords
            fa, fb = rng.sample(["highest", "lowest", "rising", "falling", "mean_rising", "value_range"], 2)
            cfgs = [IndCfg("Amorph", fn=fa, inp="close", p=rng.choice([6, 9]),
                           extra={"fullname_override": "WIDE", "_args_split": True}),
                    IndCfg("Amorph", fn=fb, inp="close", p=rng.choice([2, 3, 4]),
                           extra={"fullname_override": "NARROW", "_args_split": True})]
            if rng.random() < 0.5:
                cfgs.reverse()
        if t % 12 == 9:
            # the same class with the same parameters twice: one as generated, one with a label of the user's
            # and another input -- the generated name of the first is the PREFIX-less name of the second
            base = rand_cfg(rng, rng.choice(["SMA", "EMA", "WMA", "RMA"]))
            other = base.clone()
            other.inp = rng.choice([x for x in ("high", "low", "open", "volume") if x != base.inp])
            other.extra = dict(other.extra, **rng.choice([{"name_suffix": other.inp},
                                                          {"fullname_override": f"{base.kind}_{other.inp}"}]))
            cfgs = [base, other]
            if rng.random() < 0.5:
                cfgs.reverse()
        n = rng.randint(24, 30)
        tf = None
        if t % 3 == 1:
            # the members share a collapsing timeframe (one candle manager); one of them carries its
            # own timeframe_fill flag, which inside a Hexital must not shape the shared candles
            tf = pick_tf(rng)
            cfgs = [c.clone(timeframe=tf) for c in cfgs]
            flagged = rng.randrange(len(cfgs))
            cfgs[flagged].extra = dict(cfgs[flagged].extra, timeframe_fill=True)
            for c in cfgs:      # the same timeframe, spelled differently by each member
                c.extra = dict(c.extra, _tf_form=rng.choice(["upper", "lower", "enum"]))
        elif t % 3 == 2 and len(cfgs) >= 2:
            # every member on its own timeframe (one may stay on the base candles): each gets its own
            # manager, built from the candles the Hexital already holds when they are registered together
            ladder = rng.choice([["S10", "S30", "T1"], ["T1", "T5", "T15"], ["T5", "T10", "T15"], ["S5", "S10", "S30"]])
            picks = rng.sample(ladder, min(len(ladder), len(cfgs)))
            if rng.random() < 0.3:
                picks[rng.randrange(len(picks))] = None
            cfgs = [c.clone(timeframe=picks[j % len(picks)]) for j, c in enumerate(cfgs)]
            tf = ladder[0]
        names = [c.build(standalone=False).name for c in cfgs]
        pre, chunks = compositions(rng, n - 6, (0, 2, 5, 9), 5)
        hexcfg = {}
        if t % 3 == 2 and rng.random() < 0.6:
            # Hexital-level settings that shape the default candles (a lifespan shorter than what is given at
            # construction; an own timeframe with gap filling): what one member starts from must not depend on
            # which other members are registered with it, or on the form they are given in
            from streams import tf_seconds as _tfs

            biggest = max([_tfs(c.timeframe) for c in cfgs if c.timeframe] + [60])
            pre = rng.choice([12, 15, n - 6])
            chunks = compositions(rng, n - 6 - pre, (0,), 5)[1] if n - 6 - pre > 0 else []
            if rng.random() < 0.5:
                hexcfg = {"lifespan": "half"}       # resolved below, once the stream is known
            else:
                hexcfg = {"timeframe": tf, "fill": True}
            mixed_forms = [rng.choice(["dict", "settings", "obj"])] + ["obj"] * (len(cfgs) - 1)
            rng.shuffle(mixed_forms)
        prog = prog_for(pre, chunks)
        victim = rng.choice(names)
        if t % 12 == 9:
            victim = other.build(standalone=False).name if t % 24 == 9 else victim
        a = n - 6
        # (under a Hexital-level lifespan a recalculation works on the trimmed list and legitimately differs
        #  from readings computed while the history was still there: only presence, form and order vary there)
        for op in ([] if hexcfg.get("lifespan") else rng.sample(["purge", "recalculate", "purge", "recalculate"], 3)):
            prog.append((op, victim))
            prog.append(("append", a + 1, a + 1))
            a += 1
        removed = rng.random() < 0.5
        if removed:
            prog.append(("remove", victim))
        prog.append(("append", a + 1, n))
        stream_ = make_stream(rng, n, "mixed", tf=tf, regular=(tf_regular(rng, tf) if tf and t % 3 == 2 else None))
        if hexcfg.get("lifespan") == "half":
            # part of what is given at construction is cut by the Hexital's own trim -- but never into the members'
            # look-back (a lifespan shorter than that is outside every property, 12.4 no. 20): as many default
            # candles survive as the longest look-back among the members needs (all periods + 3)
            span = stream_[pre - 1][0] - stream_[0][0]
            need = max(c.p + (c.p2 or (3 if c.kind == "STOCH" else 0)) + (c.p3 or (3 if c.kind == "STOCH" else 0)) + 3
                       for c in cfgs)
            keep = stream_[pre - 1][0] - stream_[max(0, pre - 1 - need)][0]
            hexcfg = {"lifespan": timedelta(seconds=max(1, span // 2, keep))}
        out.append({"id": f"{pid}/pair/{'+'.join(names)}/{t}", "fam": "interf", "obj": "hex", "inds": cfgs,
                    "names_fixed": True,
                    "hex": hexcfg, "stream": stream_,
                    "prog": prog,
                    "twins": ["alone", "reorder"] if not removed else ["alone"],
                    "member_forms": (["dict"] * len(cfgs) if t % 12 == 5 else mixed_forms if hexcfg
                                     else ["obj"] * len(cfgs)),
                    "clause_props": {"exc": ["C13"], "alone": ["C13"], "reorder": ["C13"], "stage": ["C13"],
                                     "def": ["C13"], "interfere": ["C13"], "value": ["C13"], "gap": ["C13"]}})
    return out


ZERO_KINDS = [("Counter", dict(inp="volume", count_value=3)), ("STDEVTHRES", dict(p=3)), ("AROON", dict(p=3)),
              ("MACD", dict(p=2, p2=4, p3=2)), ("OBV", {}), ("ROC", dict(p=2)), ("Supertrend", dict(p=2)),
              ("STOCH", dict(p=3)), ("RSI", dict(p=2)), ("EMA", dict(p=3)), ("BBANDS", dict(p=3))]
DICT_FIELDS = {"AROON": ["AROONU", "AROOND", "AROONOSC"], "MACD": ["MACD", "signal", "histogram"],
               "Supertrend": ["trend", "direction", "long", "short"], "STOCH": ["stoch", "k", "d"],
               "BBANDS": ["BBL", "BBM", "BBU"]}
TOUCHES = ["str", "repr", "name", "settings", "reading_period", "candles_sum"]


def read_batch(rng, sc, names, kinds, lens_hint, hexobj, touches=True, span="full", only=None):
    """lens_hint: {indicator number: (length of its candle list, calculated up to the newest candle?)}
    (or a plain length for all); span: 0 = no index arguments, 1 = indices -1 / 0 only, "full" =
    indices range over the whole list"""
    from record import NOIDX

    rd = []
    for i, (nm, kind) in enumerate(zip(names, kinds)):
        if only is not None and i not in only:
            continue        # not registered (yet)
        fields = [""] + DICT_FIELDS.get(kind, [])
        if isinstance(lens_hint, dict):
            L, done = lens_hint.get(i, (1, False))
        else:
            L, done = lens_hint, True
        if span != "full":
            L = min(L, span)
        for _ in range(3):
            f = rng.choice(fields)
            full = nm + ("." + f if f else "")
            idx = rng.randrange(-L, L) if L else NOIDX
            rd.append(("ind.reading", i, full, rng.choice([idx, NOIDX])))
            if L:
                rd.append(("ind.reading", i, full, idx % L))
                rd.append(("ind.reading", i, full, (idx % L) - L))
                rd.append(("ind.reading", i, full, -1))
                rd.append(("ind.read_candle", i, full, idx))
            rd.append(("ind.prev_reading", i, full, NOIDX))
            rd.append(("ind.as_list", i, full, NOIDX))
            rd.append(("ind.reading_count", i, full, NOIDX))
            if hexobj:
                rd.append(("hex.reading", -1, full, rng.choice([NOIDX, idx])))
                rd.append(("hex.reading", -1, full, rng.randint(-14, 13)))   # any index: out of range reads None
                rd.append(("hex.prev_reading", -1, full, NOIDX))
                rd.append(("hex.reading_as_list", -1, full, NOIDX))
                rd.append(("hex.has_reading", -1, full, NOIDX))
        rd.append(("ind.has_reading", i, "", NOIDX))
        # a candle field through the indicator: with an explicit index always; without one only once the
        # indicator has been calculated (before that "the latest" is not something C20 speaks about)
        if L:
            rd.append(("ind.reading", i, rng.choice(["close", "high", "volume"]), rng.randrange(-L, L)))
        if done:
            rd.append(("ind.reading", i, rng.choice(["close", "high", "volume"]), NOIDX))
        if touches:
            for w in TOUCHES:
                rd.append((w, i, "", NOIDX))
    if hexobj:
        for c in sc["inds"]:
            rd.append(("hex.candles", -1, (c.timeframe or "").upper(), NOIDX))
        rd.append(("hex.candles", -1, "T77", NOIDX))       # unknown timeframe: the default candles
        rd.append(("hex.timeframes", -1, "", NOIDX))
        rd.append(("hex.reading", -1, "nonexistent", NOIDX))
        rd.append(("hex.reading_as_list", -1, "nonexistent", NOIDX))
        if touches:
            rd += [("str", -1, "", NOIDX), ("repr", -1, "", NOIDX), ("settings", -1, "", NOIDX),
                   ("hex.misc", -1, "", NOIDX)]
    rng.shuffle(rd)
    return rd


def fam_reads(rng, pid, count, forms=("candle",), touches=True):
    out = []
    for t in range(count):
        hexobj = t % 2 == 1
        n = rng.randint(10, 16)
        picks = rng.sample(ZERO_KINDS, 2 if hexobj else 1)
        tf = pick_tf(rng) if rng.random() < 0.4 else None
        cfgs = [IndCfg(k, **dict(p, timeframe=(tf if (j == 1 or not hexobj) else None))) for j, (k, p) in enumerate(picks)]
        if hexobj and rng.random() < 0.5:
            # a third member: on its own timeframe, or sharing the second member's (one manager for both)
            cfgs.append(rand_cfg(rng, "SMA", tf=(tf if tf and rng.random() < 0.5 else pick_tf(rng))))
            if rng.random() < 0.4:
                # member-level flags a Hexital does not act on (it fills gaps per Hexital, not per member)
                cfgs[-1].extra = dict(cfgs[-1].extra, timeframe_fill=True)
        if rng.random() < 0.3:
            # labels the user chooses may contain a dot; the stored name must stay one key
            lab = rng.choice([{"name_suffix": "v1.5"}, {"fullname_override": "my.fast"}, {"name_suffix": "a.b"}])
            cfgs[0].extra = dict(cfgs[0].extra, **lab)
        hexcfg = {}
        if hexobj and rng.random() < 0.4:
            # a Hexital with its own (coarse) timeframe: members on the same one and on finer ones
            own = rng.choice(["T5", "T15", "S30"])
            finer = {"T5": "T1", "T15": "T5", "S30": "S10"}[own]
            hexcfg = {"timeframe": own}
            tf = finer
            for j, c in enumerate(cfgs):
                c.timeframe = rng.choice([own, finer, None]) if j else rng.choice([own, finer])
        cfgs = _uniq(cfgs)
        names = [c.build(standalone=not hexobj).name for c in cfgs]
        kinds = [c.kind for c in cfgs]
        form = rng.choice(forms)
        style = rng.choice(["mixed", "flat", "up", "walk", "decimal"])     # decimal: also fractional volumes
        regular = tf_regular(rng, tf) if tf else None
        st = make_stream(rng, n, style, tf=tf, regular=regular)
        pre, chunks = compositions(rng, n, (0, 1, 3), 3)
        frac = pid == "C19" and rng.random() < 0.12
        if frac:
            # timestamps with a fraction of a second (feeds print them): the specification does not say
            # what a sub-second stamp means for bucketing (the properties speak of second resolution), only
            # that every encoding of the same candle data gives the same result -- datetime objects here,
            # ISO strings in the twin run.  One candle a spacing, never two within the same second.
            st = make_stream(rng, n, style, tf=tf, regular=(regular or 60))
            st = [(ts + rng.choice([0, 0.25, 0.5, 0.75]),) + tuple(rest) for (ts, *rest) in st]
            if rng.random() < 0.6:
                st[0] = (int(st[0][0]) + 0.25,) + tuple(st[0][1:])
            form = rng.choice(["candle", "dict", "list"])
        # now and then the last member joins later (add_indicator on a Hexital that already holds candles)
        late_i = len(cfgs) - 1 if hexobj and len(cfgs) >= 2 and rng.random() < 0.3 else None
        sc = {"id": f"{pid}/{'hex' if hexobj else 'ind'}/{'+'.join(kinds)}/{form}/{t}", "fam": "reads",
              "names_fixed": True,
              "obj": "hex" if hexobj else "ind", "inds": cfgs if late_i is None else cfgs[:late_i],
              "late": [] if late_i is None else [cfgs[late_i]], "hex": hexcfg, "stream": st, "form": form,
              "twins": [], "member_forms": ["obj"] * (len(cfgs) if late_i is None else late_i),
              "single_unwrapped": rng.random() < 0.5,
              "clause_props": {"exc": [pid], "stage": ["C19"], "def": ["C19"], "sideeffect": ["C19"],
                               "attrs": ["C19"], "args": ["C19"], "read": ["C20"]}}
        if frac:
            sc["twins"] = ["reform"]
            sc["reform_to"] = rng.choice(["dict_iso", "candle_iso"])
            sc["clause_props"] = dict(sc["clause_props"], stage=[], **{"def": [], "read": [], "value": [], "gap": []})
        # the program is grown against a live shadow run: index arguments range over the whole of each
        # indicator's own candle list as it is at that moment (the property: all in-range indices)
        from record import Session
        from streams import base_for

        tfs = [c.timeframe for c in cfgs] + [hexcfg.get("timeframe")]
        sh = Session(sc, base_for([x for x in tfs if x]))

        added = [late_i is None]

        def active():
            return set(i for i in range(len(cfgs)) if i != late_i or added[0])

        def lens():
            try:
                out = {}
                for i in sorted(active()):
                    ind = sh.indicator(i)
                    cs = ind.candles
                    # has the indicator been calculated up to the newest candle?  (public state only)
                    done = bool(cs) and ind.name in cs[-1].indicators
                    out[i] = (len(cs), done)
                return out
            except Exception:
                return {}

        def step(st_):
            try:
                sh.run(st_)
                return True
            except Exception:
                return False

        prog = [("new", pre)]
        alive = step(prog[0])
        L = lens() if alive else {}
        if pre >= 1 and L and all(v[0] >= 1 for v in L.values()):     # no reads on empty lists
            prog.append(("reads", read_batch(rng, sc, names, kinds, L, hexobj, touches,
                                               span=rng.choice(["full", 0]), only=active())))
        a = pre
        for k in chunks:
            prog.append(("append", a + 1, a + k))
            alive = alive and step(prog[-1])
            a += k
            if alive and not added[0] and a >= n // 2:
                # the late member is registered; its newest reading is refreshed first, then the rest is
                # back-filled -- whatever order the readings were produced in, "no index" is the newest
                prog.append(("add", late_i, rng.choice(["obj", "dict"])))
                alive = step(prog[-1])
                added[0] = True
                if rng.random() < 0.6:
                    prog.append(("calculate_index", names[late_i], -1, "fresh"))
                    alive = alive and step(prog[-1])
                prog.append(("calculate", names[late_i] if rng.random() < 0.5 else ""))
                alive = alive and step(prog[-1])
                L = lens() if alive else {}
                if L and all(v[0] >= 1 for v in L.values()):
                    prog.append(("reads", read_batch(rng, sc, names, kinds, L, hexobj, touches, only=active())))
                continue
            L = lens() if alive else {}
            ok = bool(L) and all(v[0] >= 1 for v in L.values())
            if ok and rng.random() < 0.3:
                # a maintenance call that changes no reading (C14) aimed at an older candle: whatever
                # cursor the library keeps, every way of asking must still mean the same candle
                i = rng.choice(sorted(L))
                n_i = L[i][0]
                if n_i >= 2 and L[i][1]:
                    pos = rng.randrange(0, n_i - 1)
                    pos = pos if rng.random() < 0.6 else pos - n_i
                    prog.append(("calculate_index", names[i] if hexobj else "", pos))
                    alive = alive and step(prog[-1])
                    if rng.random() < 0.3:
                        prog.append(("calculate", names[i] if hexobj and rng.random() < 0.5 else ""))
                        alive = alive and step(prog[-1])
                    L = lens() if alive else {}
                    ok = bool(L) and all(v[0] >= 1 for v in L.values())
                    if ok:
                        prog.append(("reads", read_batch(rng, sc, names, kinds, L, hexobj, touches, only=active())))
                    continue
            if ok and rng.random() < 0.7:
                prog.append(("reads", read_batch(rng, sc, names, kinds, L, hexobj, touches,
                                                   span=rng.choice(["full", "full", 1]), only=active())))
        sc["prog"] = prog
        out.append(sc)
    return out


def fam_relabel(rng, pid, count):
    """a label the user chose says nothing about the timeframe: the member carrying it leaves and a
    member with the same label joins on ANOTHER timeframe (before or after the Hexital was asked for
    that label).  Every way of asking -- Hexital.reading / prev_reading / has_reading / reading_as_list,
    the member itself, the candle -- must still mean the same reading."""
    from record import Session
    from streams import base_for

    out = []
    for t in range(count):
        label = rng.choice(["trend", "fast", "sig.nal"])
        tf_old = rng.choice([None, None, "T5"])
        tf_new = rng.choice([x for x in ("T5", "T10", None) if x != tf_old])
        kind = rng.choice(["SMA", "EMA", "RSI", "BBANDS", "MACD"])
        a = rand_cfg(rng, kind, tf=tf_old)
        c = rand_cfg(rng, kind if rng.random() < 0.6 else rng.choice(["SMA", "WMA", "STOCH"]), tf=tf_new)
        b = rand_cfg(rng, rng.choice(SIMPLE), tf=rng.choice([None, tf_new, tf_old]))
        a.extra = dict(a.extra, fullname_override=label)
        c.extra = dict(c.extra, fullname_override=label)
        cfgs = [a, b, c]
        names = [x.build(standalone=False).name for x in cfgs]
        if names[1] == names[0] or names[2] != names[0]:
            continue
        kinds = [x.kind for x in cfgs]
        n = rng.randint(22, 34)
        st = make_stream(rng, n, rng.choice(["mixed", "walk", "up"]), tf="T5", regular=rng.choice([60, 60, 150, 300]))
        sc = {"id": f"{pid}/relabel/{kinds[0]}>{kinds[2]}/{tf_old}>{tf_new}/{t}", "fam": "reads", "names_fixed": True,
              "obj": "hex", "inds": [a, b], "late": [c], "hex": {}, "stream": st, "form": "candle", "twins": [],
              "member_forms": ["obj", "obj"],
              "clause_props": {"exc": [pid], "stage": ["C19"], "def": ["C19"], "sideeffect": ["C19"],
                               "attrs": ["C19"], "args": ["C19"], "read": ["C20"]}}
        sh = Session(sc, base_for(["T5", "T10"]))
        act = {0, 1}

        def lens():
            o = {}
            for i in sorted(act):
                ind = sh.indicator(i)
                cs = ind.candles
                o[i] = (len(cs), bool(cs) and ind.name in cs[-1].indicators)
            return o

        def reads(prog):
            try:
                L = lens()
            except Exception:
                return
            if L and all(v[0] >= 1 for v in L.values()):
                prog.append(("reads", read_batch(rng, sc, names, kinds, L, True, pid == "C19", only=set(act))))

        cuts = sorted(rng.sample(range(n // 2, n - 2), 2))
        prog = [("new", rng.choice([0, 3]))]
        prog.append(("append", prog[0][1] + 1, cuts[0]))
        try:
            for s_ in prog:
                sh.run(s_)
            if rng.random() < 0.8:
                reads(prog)         # the Hexital is asked for the label while the first member carries it
            steps = [("remove", names[0])]      # (the name as stored: a dot in a label is kept out of the key)
            if rng.random() < 0.5:
                steps.append(("append", cuts[0] + 1, cuts[1]))
            pos = cuts[1] if len(steps) == 2 else cuts[0]
            steps.append(("add", 2, rng.choice(["obj", "dict"])))
            steps.append(("calculate", rng.choice(["", names[0]])))
            for s_ in steps:
                sh.run(s_)
                prog.append(s_)
            act = {1, 2}
            reads(prog)
            prog.append(("append", pos + 1, n))
            sh.run(prog[-1])
            reads(prog)
        except Exception:
            pass
        sc["prog"] = prog
        out.append(sc)
    return out


def fam_hexital(rng, pid, count, twins=("standalone",), force_ha=False):
    """Hexital members against standalone twins.  Timeframes inside one Hexital stay within a
    factor of 6 of each other and the stream is spaced on the smallest, so every timeframe
    sees several buckets and gap filling stays small."""
    from streams import tf_seconds

    # (also ladders whose steps are not multiples of one another: T10 -> T15, T30 -> T45, H2 -> H3, S10 -> S15)
    LADDERS = [["S10", "S30", "T1"], ["T1", "T5"], ["T5", "T10", "T15"], ["S5", "S10", "S30"], ["H1", "H2", "H4"],
               ["T15", "T30", "H1"], ["T30", "T45", "H1"], ["H2", "H3", "H4"], ["S10", "S15", "S30"], ["T10", "T15"]]
    out = []
    for t in range(count):
        nmem = rng.choice([1, 2, 2, 3])
        ladder = rng.choice(LADDERS)
        base_tf = rng.choice([None, None, None, ladder[0], rng.choice(ladder)])
        cfgs = _uniq([rand_cfg(rng, rng.choice(ALL_KINDS), tf=rng.choice([None] + ladder))
                      for _ in range(nmem)])
        if pid == "C08" and rng.random() < 0.25:
            # a pattern / movement wrapper as a member, also rebuilt from its own settings
            am = amorph_cfg(rng)
            am.timeframe = rng.choice([None] + ladder)
            if rng.random() < 0.4 and am.fn not in ("positive", "negative"):
                # a function of the user's own that is merely CALLED like a built-in one (and computes something
                # else): given as a callable it is used as given, as an object member and as a dict member alike
                pool = PATS if am.fn in PATS else (MOVE2[2:] if am.fn in MOVE2 else MOVE1)
                am.extra = dict(am.extra, _user_fn=rng.choice([x for x in pool if x != am.fn]))
            cfgs = _uniq(cfgs + [am])
        if len(cfgs) >= 2 and rng.random() < 0.4:
            shared = rng.choice(ladder)            # two members on one timeframe = one shared manager
            cfgs[0].timeframe = cfgs[1].timeframe = shared
            cfgs = _uniq(cfgs)
        for c in cfgs:
            c.extra = dict(c.extra, _tf_form=rng.choice(["upper", "upper", "lower", "enum"]))
        fill = rng.random() < 0.3          # also without a Hexital timeframe: the members inherit it
        if force_ha:
            fill = False
        ha = force_ha or (rng.random() < 0.2 and not fill)
        tfs = [c.timeframe for c in cfgs] + [base_tf]
        secs = sorted(tf_seconds(x) for x in tfs if x)
        biggest = secs[-1] if secs else 60
        # (a window of 12 / 20 of the coarsest buckets, or a lifespan of zero: only the newest candle is kept)
        life = timedelta(seconds=biggest * rng.choice([12, 20, 0])) if rng.random() < 0.2 else None
        if pid != "C08":
            # batch = incremental is not claimed under a lifespan (C15 owns it)
            life = None
        hexcfg = {"timeframe": base_tf, "fill": fill, "lifespan": life, "ctype": "HA" if ha else None}
        n = rng.randint(16, 22) if ha else rng.randint(20, 34)   # HA values double their denominator per candle
        small = next((x for x in ladder if x in tfs), None)
        regular = None
        if small:
            regular = max(1, tf_seconds(small) // rng.choice([1, 2, 3])) if rng.random() < 0.75 else None
        sc = hex_scenario(rng, f"{pid}/hex/{'+'.join(c.kind for c in cfgs)}/{t}", "hexital", cfgs, n,
                          # Heikin-Ashi chains stay exact (dyadic) only on integer prices
                          rng.choice(["mixed", "walk"] if ha else ["mixed", "walk", "decimal"]),
                          twins=twins, hexcfg=hexcfg,
                          tf=small, regular=regular,
                          pre_choices=(0, 1, 2, n), forms=[rng.choice(["obj", "dict", "settings"]) for _ in cfgs],
                          form=rng.choice(["candle", "candle", "dict"]))
        # (a user's callable survives as a callable only: its settings name the function, they do not carry it)
        sc["member_forms"] = ["dict" if (f == "settings" and "_user_fn" in c.extra) else f
                              for f, c in zip(sc["member_forms"], sc["inds"])]
        if pid == "C08":
            sc["clause_props"] = {"exc": ["C08"], "stage": ["C08"], "def": ["C08"], "value": ["C08"]}
        else:
            sc["clause_props"] = {"exc": [pid], "stage": [pid]}
        if fill and base_tf and sc["prog"][0][1] > 0 and any(c.timeframe and c.timeframe != base_tf for c in cfgs):
            # own scenario class: with Hexital-level gap filling the default candles a member's manager
            # is built from contain inserted candles, which a coarser member merges like trades
            sc["class"] = "hexital_fill_preloaded_timeframe"
        if life is not None and sc["prog"][0][1] > 0 and any(c.timeframe and c.timeframe != base_tf for c in cfgs):
            # own scenario class (DESIGN.md 5.2): a Hexital built WITH candles and a lifespan creates a
            # member's timeframe manager from the already trimmed default candles
            sc["class"] = "hexital_lifespan_preloaded_timeframe"
        out.append(sc)
    return out


def fam_scale(rng, pid, count, hists=(60, 300)):
    """the same single-candle append at a short and at a long history: executed indicator code,
    computed readings and look-back must be the same"""
    out = []
    for t in range(count):
        if t % 6 == 4:
            src = rand_cfg(rng, rng.choice(["RSI", "EMA", "SMA", "ATR"]))
            live = src.build(standalone=False).name
            tgt = rand_cfg(rng, rng.choice(["STOCH", "BBANDS", "STDEV", "TSI", "RSI", "SMA", "STDEVTHRES"]), inp=live)
            tgt.extra = {"name_suffix": "on"}
            sc = {"id": f"{pid}/scale/chain/{src.kind}>{tgt.kind}/{t}", "obj": "hex", "inds": [src, tgt], "hex": {},
                  "member_forms": ["obj"] * 2}
        elif t % 6 == 5:
            cfgs = _uniq([rand_cfg(rng, k) for k in rng.sample(ALL_KINDS, 5)])
            sc = {"id": f"{pid}/scale/hex/{t}", "obj": "hex", "inds": cfgs, "hex": {}, "member_forms": ["obj"] * len(cfgs)}
        elif t % 6 == 3:
            # a pattern / movement function wrapped as an indicator (also the ones named like a candle's own
            # properties: positive, negative), standalone or as a dict member
            cfg = amorph_cfg(rng, prefer=(("positive", "negative") if t % 12 == 3 else None))
            if t % 12 == 9:
                # a look-back of zero (or less) candles is an empty window -- "nothing crossed" -- however long the
                # history is; over two series that never cross (high / low) nothing ends a scan early
                cfg = IndCfg("Amorph", fn=rng.choice(["cross", "crossover", "crossunder"]), inp="high", inp2="low",
                             p=rng.choice([0, 0, -1]))
            if rng.random() < 0.5:
                sc = {"id": f"{pid}/scale/amorph/{cfg.fn}/{t}", "obj": "ind", "inds": [cfg]}
            else:
                sc = {"id": f"{pid}/scale/amorphhex/{cfg.fn}/{t}", "obj": "hex", "inds": [cfg, rand_cfg(rng, "EMA")],
                      "hex": {}, "member_forms": ["dict", "obj"]}
        else:
            cfg = rand_cfg(rng, ALL_KINDS[t % len(ALL_KINDS)])
            sc = {"id": f"{pid}/scale/{cfg.kind}/{t}", "obj": "ind", "inds": [cfg]}
        style = rng.choice(["walk", "mixed", "flat_then_walk", "up", "zero_vol"])
        if any(c.kind in ("VWMA", "VWAP", "OBV") for c in sc["inds"]) and rng.random() < 0.6:
            style = "zero_vol"
        st = make_stream(rng, max(hists) + 1, style)
        # the measured candle is the same at both history lengths: put it at both positions
        last = st[-1]
        st[hists[0]] = (st[hists[0]][0],) + last[1:]
        if rng.random() < 0.3:
            # a lifespan long enough to retain everything: trimming has nothing to do at either length
            life = timedelta(days=30)
            if sc["obj"] == "hex":
                sc["hex"] = {"lifespan": life}
            else:
                sc["inds"][0].lifespan = life
        sc.update({"fam": "work", "stream": st, "twins": [], "scale": list(hists), "prog": [],
                   "clause_props": {"work": ["C07"], "exc": ["C07"]}, "names_fixed": True})
        out.append(sc)
    return out


def fam_work(rng, pid, count):
    out = []
    kinds = ALL_KINDS
    for t in range(count):
        tf = pick_tf(rng) if t % 4 == 3 else None
        hexobj = t % 5 == 4
        hist = rng.randint(26, 34)
        n = hist + 6
        style = "mixed"
        if t % 7 == 6:
            # readings that are legitimately None long after warm-up (the short side of a Supertrend
            # in an up-trend and anything computed from it): they must not be recomputed either
            st_cfg = IndCfg("Supertrend", p=rng.choice([2, 3]), mult=rng.choice([2.0, 3.0]))
            live = st_cfg.build(standalone=False).name
            side, style = rng.choice([(".short", "up"), (".long", "down")])
            cfgs = [st_cfg, IndCfg("Amorph", fn=rng.choice(["highest", "lowest", "value_range", "rising"]),
                                   inp=live + side, p=rng.randint(2, 5))]
            sc = {"id": f"{pid}/none/{t}", "obj": "hex", "inds": cfgs, "hex": {}, "member_forms": ["obj"] * len(cfgs),
                  "names_fixed": True}
            tf = None
        elif t % 7 == 5:
            # an indicator computed on another indicator's (late-starting) output
            src = rand_cfg(rng, rng.choice(["RSI", "EMA", "SMA", "ATR", "ROC"]))
            live = src.build(standalone=False).name
            tgt = rand_cfg(rng, rng.choice(["STOCH", "BBANDS", "STDEV", "TSI", "RSI", "SMA", "EMA", "MACD", "STDEVTHRES"]),
                           inp=live)
            tgt.extra = {"name_suffix": "on"}
            cfgs = [src, tgt]
            sc = {"id": f"{pid}/chain/{src.kind}>{tgt.kind}/{t}", "obj": "hex", "inds": cfgs, "hex": {},
                  "member_forms": ["obj"] * 2, "names_fixed": True}
            tf = None
        elif hexobj:
            cfgs = _uniq([rand_cfg(rng, k) for k in rng.sample(kinds, 4)])
            sc = {"id": f"{pid}/hex/{t}", "obj": "hex", "inds": cfgs, "hex": {}, "member_forms": ["obj"] * len(cfgs)}
        else:
            cfg = rand_cfg(rng, kinds[t % len(kinds)], tf=tf)
            if t % 3 == 0:
                cfg.ctype = "HA"        # a candlestick conversion on top (also of collapsed candles)
            sc = {"id": f"{pid}/{cfg.kind}/{t}", "obj": "ind", "inds": [cfg]}
        if hexobj and t % 2 == 0:
            sc["hex"] = {"ctype": "HA", "timeframe": pick_tf(rng) if t % 4 == 0 else None}
            tf = sc["hex"]["timeframe"]
        regular = tf_regular(rng, tf) if tf else None
        stw = make_stream(rng, n, style if not any(c.ctype for c in sc["inds"]) and not sc.get("hex", {}).get("ctype")
                          else "walk", tf=tf, regular=regular)
        volkind = any(c.kind in ("VWMA", "VWAP", "OBV") for c in sc["inds"])
        if t % 5 == 2 or (volkind and rng.random() < 0.6):       # the appended candles trade no volume
            stw = stw[:hist - 3] + [x[:5] + (0,) for x in stw[hist - 3:]]
        sc.update({"fam": "work", "stream": stw, "twins": [],
                   "work": True,
                   "prog": [("new", hist), ("calculate", "")] + [("append", hist + i, hist + i) for i in range(1, 7)],
                   "clause_props": {"work": ["C07"], "exc": ["C07"]}})
        out.append(sc)
    return out


# ---------------------------------------------------------------------------------------
# analysis functions called directly on candle lists (C16, C17)
MOVE2 = ("above", "below", "cross", "crossover", "crossunder")
MOVE1 = ("rising", "falling", "mean_rising", "mean_falling", "highest", "lowest", "highestbar", "lowestbar",
         "value_range")
PATS = ("doji", "dojistar", "hammer", "inv_hammer")
AN_PROPS = {"an": ["C16", "C17"], "geo": ["C17"], "exc": ["C16"], "sideeffect": ["C16"]}


def _calls(rng, n, fns, idxs, lens, per=2):
    rd = []
    for fn in fns:
        for i in idxs:
            for _ in range(per):
                L = rng.choice(lens)
                a, b = ("a", "b") if rng.random() < 0.7 else ("b", "a")
                if fn in PATS:
                    a = b = ""
                    L = rng.choice(lens if lens != [None] else [None, None, 1, 2, 3])
                elif fn in ("above", "below", "positive", "negative"):
                    L = None
                variants = ["at", "neg", "trunc"] + (["default"] if i == n - 1 else [])
                for var in variants:
                    if var in ("trunc", "default") and fn in ("above", "below") and False:
                        continue
                    rd.append(("an", fn, a, b, L, i, var))
    return rd


def _transform(stream, readings, mul, add):
    f = lambda x: round(x * mul + add, 10)      # decimal inputs stay short decimals
    st = [(t, f(o), f(h), f(l), f(c), v) for t, o, h, l, c, v in stream]
    rd = [{k: (None if x is None else f(x)) for k, x in r.items()} for r in readings]
    return st, rd


# "no predicate changes when all prices are multiplied by a positive factor or shifted by a constant":
# from sub-cent quotes to index levels
SCALINGS = [(1, 0), (1, 0), (2, 0), (10, 0), (0.5, 0), (1, 100), (1, 1), (0.001, 0), (0.0001, 0), (0.00001, 0),
            (1000, 0), (0.01, 0), (100, 7)]


def fam_movement(rng, pid, count):
    out = []
    for t in range(count):
        n = rng.randint(2, 9)
        vals = [None, 1, 2, 3, 2.5, 1, 2]
        readings = [{"a": rng.choice(vals), "b": rng.choice(vals)} for _ in range(n)]
        if rng.random() < 0.2:      # a series that starts late / stops early
            for r in readings[:rng.randint(1, n)]:
                r["a"] = None
        stream = make_stream(rng, n, "walk")
        mul, add = rng.choice([(1, 0), (1, 0), (2, 0), (10, 0), (0.5, 0), (1, 100), (1, 1)])
        stream, readings = _transform(stream, readings, mul, add)
        idxs = list(range(n))
        if t % 4 == 1:
            # the series are candle fields, with values that are exactly 0 (no volume; a low on zero)
            lo = min(x[3] for x in stream)
            stream = [(ts, o - lo, h - lo, l - lo, c - lo, v) for ts, o, h, l, c, v in stream]
            fields = rng.sample(["volume", "low", "close", "open", "high"], 2)
            rd = [("an", fn, fields[0] if a_ in ("a", "") else fields[1], fields[1] if b_ in ("b", "") else fields[0], L, i, var)
                  for (_, fn, a_, b_, L, i, var) in _calls(rng, n, MOVE1 + MOVE2, idxs, [1, 2, 3, 4, None], per=1)]
            rd += [("geo", i) for i in idxs]
            rng.shuffle(rd)
            out.append({"id": f"{pid}/fields/{t}", "fam": "analysis", "obj": "list", "inds": [], "stream": stream,
                        "readings": [{} for _ in range(n)], "prog": [("new", n), ("reads", rd)], "twins": [],
                        "clause_props": AN_PROPS})
            continue
        rd = _calls(rng, n, MOVE1 + MOVE2, idxs, [1, 1, 2, 3, 4, 5, None], per=1)
        rd += _calls(rng, n, ("positive", "negative"), idxs, [None], per=1)
        rd += [("geo", i) for i in idxs]
        rng.shuffle(rd)
        out.append({"id": f"{pid}/move/{t}", "fam": "analysis", "obj": "list", "inds": [], "stream": stream,
                    "readings": readings, "prog": [("new", n), ("reads", rd)], "twins": [],
                    "clause_props": AN_PROPS})
    return out


def _neutral(k, lvl=20.0):
    """k quiet candles: body 2, range 4, alternating direction"""
    out = []
    for i in range(k):
        if i % 2 == 0:
            out.append((lvl, lvl + 3, lvl - 1, lvl + 2, 5))
        else:
            out.append((lvl + 2, lvl + 3, lvl - 1, lvl, 5))
    return out


def pattern_case(rng, name, witness):
    """a neutral history followed by a candle built to meet every clause of `name` with a margin of
    at least 2x (witness) or to break exactly one clause clearly (counter-witness)"""
    hist = _neutral(rng.randint(11, 13))
    po, ph, pl, pc, _ = hist[-1]
    which = None if witness else rng.randrange(4)
    if name == "doji":
        body = 0.1 if witness else 1.5
        o = 21.0
        c = o + body
        cand = (o, max(o, c) + 1, min(o, c) - 1, c, 5)
    elif name == "dojistar":
        # long previous candle, then a doji whose body gaps away from it
        prev = (20.0, 26.5, 19.5, 26.0, 5) if which != 0 else (20.0, 21.5, 19.5, 21.0, 5)
        hist[-1] = prev
        top = max(prev[0], prev[3])
        gap = 1.0 if which != 2 else -2.0
        body = 0.1 if which != 1 else 2.0
        o = top + gap
        c = o + body
        cand = (o, max(o, c) + 1, min(o, c) - 1, c, 5)
    elif name == "hammer":
        body = 0.5 if which != 0 else 4.5
        lower = 3.0 if which != 1 else 0.1
        upper = 0.1 if which != 2 else 2.0
        lo_body = pl + (0.2 if which != 3 else 4.0)      # near the previous low
        o, c = lo_body, lo_body + body
        cand = (o, c + upper, o - lower, c, 5)
    else:  # inverted hammer
        body = 0.5 if which != 0 else 4.5
        upper = 3.0 if which != 1 else 0.1
        lower = 0.1 if which != 2 else 2.0
        hi_body = min(po, pc) - (1.0 if which != 3 else -3.0)    # body gaps below the previous body
        c, o = hi_body, hi_body - body
        cand = (o, c + upper, o - lower, c, 5)
    tail = _neutral(rng.randint(0, 2), lvl=cand[3])
    prices = hist + [cand] + tail
    return prices, len(hist)


def _avg(vals, length):
    return sum(vals) / length


def uneven_case(rng, name, witness):
    """like pattern_case, but over a history whose candle ranges and bodies vary widely (spikes, very
    quiet bars), with the candidate placed relative to the thresholds that history actually gives:
    each clause is met with a margin of at least 2x, or exactly one is missed by at least 2x"""
    k = rng.randint(11, 14)
    hist = []
    lvl = 40.0
    # half of the cases: a quiet history with spikes exactly at the edges of the averaging windows
    # (5 and 10 candles back), so that a window shifted by one candle gives a different threshold
    edges = rng.random() < 0.5
    spikes = set(rng.sample([k - 10, k - 9, k - 5, k - 4, k - 1], rng.randint(1, 2))) if edges else set()
    for i in range(k):
        rngsz = rng.choice([1.0, 2.0, 4.0, 8.0, 16.0])
        if edges:
            rngsz = 40.0 if i in spikes else rng.choice([1.0, 2.0])
        body = rngsz * rng.choice([0.25, 0.5])
        up = rng.random() < 0.5
        o = lvl
        c = lvl + body if up else lvl - body
        h = max(o, c) + (rngsz - body) / 2
        l = min(o, c) - (rngsz - body) / 2
        hist.append((o, h, l, c, 5))
    n = len(hist)
    hl = [h - l for o, h, l, c, v in hist]
    rb = [abs(o - c) for o, h, l, c, v in hist]
    po, ph, pl, pc, _ = hist[-1]
    which = None if witness else rng.randrange(4)
    # thresholds of the documented formulas for a candidate at position n (windows include it
    # where the documentation says so; estimated without the candidate, margins absorb the rest)
    near = 0.2 * _avg(hl[-5:], 5)
    body_avg = _avg(rb[-9:], 10)
    if name == "hammer":
        body = min(0.5, body_avg / 4) if which != 0 else 4 * max(body_avg, 1.0) + 4
        lower = 6 * max(body, 1.0) + rng.choice([0, 10, 30, 60]) if which != 1 else body / 4
        upper = 0.0 if which != 2 else 3 * max(_avg(hl[-9:], 10) * 0.1, 0.5) + 2
        lo_body = pl + (near * 0.4 if which != 3 else near * 2.5 + 0.5)
        o, c = lo_body, lo_body + body
        cand = (o, c + upper, o - lower, c, 5)
    elif name == "inv_hammer":
        body = min(0.5, body_avg / 4) if which != 0 else 4 * max(body_avg, 1.0) + 4
        upper = 6 * max(body, 1.0) + rng.choice([0, 10, 30]) if which != 1 else body / 4
        lower = 0.0 if which != 2 else 3 * max(_avg(hl[-9:], 10) * 0.1, 0.5) + 2
        hi_body = min(po, pc) - (1.0 if which != 3 else -(abs(po - pc) + 2.0))
        c, o = hi_body, hi_body - body
        cand = (o, c + upper, o - lower, c, 5)
    elif name == "doji":
        thr = 0.1 * _avg(hl[-9:], 10)
        body = thr / 4 if witness else thr * 3 + 0.5
        o = lvl
        c = o + body
        cand = (o, c + 1, o - 1, c, 5)
    else:  # dojistar
        long_prev = which != 0
        pb = (3 * max(_avg(rb[-10:-1], 10), 0.5) + 2) if long_prev else max(_avg(rb[-10:-1], 10), 0.5) / 4
        prev = (lvl, lvl + pb + 0.5, lvl - 0.5, lvl + pb, 5)
        hist[-1] = prev
        thr = 0.1 * _avg(hl[-9:], 10)
        body = thr / 4 if which != 1 else thr * 3 + 0.5
        gap = 1.0 if which != 2 else -(pb / 2)
        o = prev[3] + gap
        c = o + body
        cand = (o, c + 0.5, o - 0.5, c, 5)
    tail = _neutral(rng.randint(0, 2), lvl=cand[3])
    return hist + [cand] + tail, len(hist)


def _hl_avg(pr, length, idx):
    lo = max(0, idx + 1 - length)
    return sum(pr[i][1] - pr[i][2] for i in range(lo, idx + 1)) / length


def _rb_avg(pr, length, idx):
    lo = max(0, idx + 1 - length)
    return sum(abs(pr[i][0] - pr[i][3]) for i in range(lo, idx + 1)) / length


def edge_case(rng, name):
    """a quiet history with ONE extreme candle sitting exactly at the edge of an averaging window,
    and a candidate whose deciding quantity lies between the threshold of the documented window
    and the threshold of that window shifted by one candle (geometric mean of the two): the verdict
    then tells which window was used.  Every other clause is met with a wide margin."""
    k = rng.randint(12, 14)
    lvl = 50.0
    quiet = lambda i: ((lvl, lvl + 1.5, lvl - 0.5, lvl + 1.0, 5) if i % 2 == 0 else (lvl + 1.0, lvl + 1.5, lvl - 0.5, lvl, 5))  # noqa: E731
    spike = (lvl, lvl + 40.0, lvl - 40.0, lvl + 30.0, 5)
    hist = [quiet(i) for i in range(k)]
    n = k                       # position of the candidate
    if name == "hammer":
        # clause 4: min(o,c) <= prev.low + 0.2 * avg range of candles n-5..n-1
        pos = rng.choice([n - 6, n - 5])      # just outside / just inside the documented window
        hist[pos] = spike
        t_doc = 0.2 * _hl_avg(hist, 5, n - 1)
        body, lower = 0.25, rng.choice([3.0, 60.0])
        pl = hist[-1][2]
        # the window ending at the candidate itself would contain its own range instead
        cand0 = (0, 0, -lower, body, 5)
        t_alt = 0.2 * (_hl_avg(hist + [(0, body, -lower, body, 5)], 5, n))
        d = (t_doc * t_alt) ** 0.5 if abs(t_doc - t_alt) > 0.2 else t_doc * rng.choice([0.4, 2.5])
        d = round(d, 2)          # short decimals stay exact rationals for the specification
        o = round(pl + d, 2)
        c = o + body
        cand = (o, c, o - lower, c, 5)
    elif name == "doji":
        # body < 0.1 * avg range of candles n-9..n
        pos = rng.choice([n - 10, n - 9])
        hist[pos] = spike
        cand_rng = 2.0
        t_doc = 0.1 * (_hl_avg(hist + [(0, 1, -1, 0, 5)], 10, n))
        t_alt = 0.1 * (_hl_avg(hist, 10, n - 1))
        body = (t_doc * t_alt) ** 0.5 if abs(t_doc - t_alt) > 0.05 else t_doc * rng.choice([0.4, 2.5])
        body = round(min(body, 1.9), 3)
        o = lvl
        c = o + body
        cand = (o, o + 1.0 + body, o - 1.0, c, 5) if body < 1.0 else (o, c, c - 2.0, c, 5)
    else:   # dojistar: previous body > avg body of candles n-10..n-1
        pos = rng.choice([n - 11, n - 10]) if k >= 13 else n - 10
        hist[pos] = spike
        t_doc = _rb_avg(hist, 10, n - 1)
        t_alt = _rb_avg(hist, 10, n - 2)
        pb = max((t_doc * t_alt) ** 0.5, 0.3) if abs(t_doc - t_alt) > 0.3 else t_doc * rng.choice([0.4, 2.5])
        pb = round(pb, 2)
        prev = (lvl, lvl + pb + 0.25, lvl - 0.25, lvl + pb, 5)
        hist[-1] = prev
        o = prev[3] + 1.0
        cand = (o, o + 0.5, o - 0.5, o + 0.01, 5)
    tail = _neutral(rng.randint(0, 1), lvl=cand[3])
    return hist + [cand] + tail, len(hist)


def multi_pattern_series(rng):
    """a longer series carrying several pattern candles, for lookbacks that reach past them"""
    prices = _neutral(11)
    marks = []
    for name in rng.sample(list(PATS), rng.randint(2, 4)):
        extra, at = pattern_case(rng, name, witness=True)
        marks.append(len(prices))
        prices = prices + [extra[at]] + _neutral(rng.randint(1, 2), lvl=extra[at][3])
    return prices


def fam_patterns(rng, pid, count):
    out = []
    for t in range(count):
        looks = [None, None, 1, 2, 3]
        if t % 5 == 2:
            n = rng.randint(11, 16)
            stream = make_stream(rng, n, rng.choice(["walk", "mixed", "decimal"]))
            focus = list(range(8, n))
        elif t % 5 == 4:
            prices = multi_pattern_series(rng)
            stream = [(i * 60,) + p for i, p in enumerate(prices)]
            n = len(stream)
            focus = sorted(rng.sample(range(n), min(n, 9)))
            looks = [None, 2, 5, 11, 13, 15, 20, 40]
        else:
            name = PATS[t % len(PATS)]
            if t % 3 == 0 and name != "inv_hammer":
                prices, at = edge_case(rng, name)
            else:
                maker = uneven_case if t % 2 == 0 else pattern_case
                prices, at = maker(rng, name, witness=rng.random() < 0.5)
            if rng.random() < 0.3 and at >= 11:
                # an illiquid stretch: most of the ten candles in front of the candidate did not move at all
                # (open = high = low = close); they count in the averages like any other candle
                flat_at = rng.sample(range(at - 10, at - 1), rng.randint(5, 8))
                prices = [((p_[3],) * 4 + (0,)) if i in flat_at else p_ for i, p_ in enumerate(prices)]
            if rng.random() < 0.5:
                # very wide (or very quiet) candles right after the candidate: the averages a threshold is
                # taken from jump between the candidate and the later candles whose lookback still covers it
                lvl = prices[-1][3]
                wide = rng.random() < 0.7
                for _ in range(rng.randint(1, 2)):
                    r_ = 400.0 if wide else 0.2
                    prices = prices + [(lvl, lvl + r_ / 2, lvl - r_ / 2, lvl + (r_ / 4 if wide else 0.05), 5)]
            stream = [(i * 60,) + p for i, p in enumerate(prices)]
            n = len(stream)
            focus = list(range(max(8, at - 1), n))
            looks = [None, 1, 2, 2, 3, 3, 4]
        readings = [{} for _ in range(n)]
        mul, add = rng.choice(SCALINGS)
        stream, readings = _transform(stream, readings, mul, add)
        rd = _calls(rng, n, PATS, focus, looks, per=2)
        rd += [("geo", i) for i in focus]
        out.append({"id": f"{pid}/pattern/{t}", "fam": "analysis", "obj": "list", "inds": [], "stream": stream,
                    "readings": readings, "prog": [("new", n), ("reads", rd)], "twins": [],
                    "clause_props": AN_PROPS})
    return out


def amorph_cfg(rng, src_name=None, prefer=None):
    # the functions of the movement and pattern maps (above/below are not in them)
    fn = rng.choice(list(prefer) if prefer
                    else list(MOVE1) + ["cross", "crossover", "crossunder", "positive", "negative"] + list(PATS))
    if fn in PATS:
        return IndCfg("Amorph", fn=fn, p=rng.choice([0, 0, 2, 3, 12, 15]))
    if fn in ("positive", "negative"):
        return IndCfg("Amorph", fn=fn)
    a = src_name or rng.choice(["close", "high", "low", "volume"])
    b = rng.choice(["open", "close", "low"])
    if fn in ("above", "below"):
        return IndCfg("Amorph", fn=fn, inp=a, inp2=b)
    if fn in MOVE2:
        return IndCfg("Amorph", fn=fn, inp=a, inp2=b, p=rng.choice([1, 2, 3, 1, 2, 3, 0]))
    return IndCfg("Amorph", fn=fn, inp=a, p=rng.randint(1, 4))


def fam_amorph(rng, pid, count, twins=("batch",)):
    """analysis functions wrapped as indicators: same column live and in batch"""
    out = []
    for t in range(count):
        # (every third scenario: the two-series functions, whose answer at candle i compares candle i with
        #  its predecessor -- the ones a one-candle shift in either direction changes)
        prefer = ("cross", "crossover", "crossunder") if t % 3 == 2 else (PATS if t % 4 == 0 else None)
        if t % 2 == 0:
            tail = t % 8 == 0        # every eighth: a wrapped pattern whose only hit is the last candle
            quiet = t % 10 == 6      # every tenth: a function of the volume on a timeframe fed repeated candles
            cfg = amorph_cfg(rng, src_name=("volume" if quiet else None),
                             prefer=((PATS[(t // 8) % 4],) if tail else (MOVE1 if quiet else prefer)))
            n = rng.randint(12, 18)
            if t % 6 == 4:
                # the wrapper has already produced readings on a list of its own, then joins a Hexital
                out.append(hex_scenario(rng, f"{pid}/amorph/used/{cfg.fn}/{t}", "amorph", [cfg], n,
                                        rng.choice(["walk", "mixed"]), twins, forms=["used"],
                                        extra=rng.randint(1, 4) if "longer" in twins else 0))
                continue
            # (a third of the wrappers on a collapsing timeframe, also fed quiet sub-candles that stay inside
            #  the forming bucket and close where it stands: only its volume moves)
            tf_ = pick_tf(rng) if (quiet or rng.random() < 0.3) and not tail else None
            cfg.timeframe = tf_
            sc = ind_scenario(rng, f"{pid}/amorph/{cfg.fn}/{t}", "amorph", cfg, n + (8 if tf_ else 0),
                              "repeat" if quiet else
                              rng.choice(["walk", "mixed", "repeat", "inside_then_walk"] if tf_ else ["walk", "mixed"]),
                              twins, extra=rng.randint(1, 4) if "longer" in twins else 0, tf=tf_,
                              regular=(tf_regular(rng, tf_) if tf_ and rng.random() < 0.7 else None))
            if cfg.fn in PATS and tail:
                # a lookback longer than the history in front of the early candles, on a stream whose LAST
                # candle is a hit of the same pattern (for the doji family also with a body of exactly zero):
                # a hit at the end of the list must not show up on candles that cannot see it
                cfg.p = rng.choice([12, 15, 20])
                prices, at = pattern_case(rng, cfg.fn, witness=True)
                prices = prices[:at + 1]
                if cfg.fn in ("doji", "dojistar") and rng.random() < 0.75:
                    o_, h_, l_, c_, v_ = prices[-1]
                    prices[-1] = (o_, h_, l_, o_, v_)
                head = _neutral(rng.randint(2, 6))
                prices = head + prices
                extra_ = len(sc["stream"]) - n
                sc = ind_scenario(rng, sc["id"].replace("/amorph/", "/amorph/tail/"), "amorph", cfg, len(prices), "walk",
                                  tuple(x for x in twins if x != "longer"), extra=0, pre_choices=(0, 1, 2, len(prices)))
                sc["stream"] = [(i * 60,) + tuple(p_) for i, p_ in enumerate(prices)]
            elif cfg.fn in PATS and rng.random() < 0.7:
                # a series that really carries pattern candles (also as its last candle), long enough for
                # lookbacks that reach back past the warm-up of the pattern's averages
                prices = multi_pattern_series(rng)
                extra_ = len(sc["stream"]) - n
                while len(prices) < n + extra_:
                    prices = prices + multi_pattern_series(rng)[11:]
                sc = ind_scenario(rng, sc["id"], "amorph", cfg, len(prices) - extra_, "walk", twins, extra=extra_)
                sc["stream"] = [(i * 60,) + tuple(p_) for i, p_ in enumerate(prices)]
            out.append(sc)
        else:
            src = rand_cfg(rng, rng.choice(["EMA", "SMA", "RSI", "ATR"]))
            live = src.build(standalone=False).name
            cfg = amorph_cfg(rng, live, prefer=prefer)
            n = rng.randint(14, 20)
            sc = hex_scenario(rng, f"{pid}/amorph/{src.kind}>{cfg.fn}/{t}", "amorph", [src, cfg], n,
                              rng.choice(["walk", "mixed"]), twins, forms=["obj", rng.choice(["obj", "dict", "used"])],
                              extra=rng.randint(1, 4) if "longer" in twins else 0)
            out.append(sc)
    for sc in out:
        sc["clause_props"] = dict(sc.get("clause_props", {}), exc=[pid])
        sc["names_fixed"] = True
    return out
