"""Scenario families per property (DESIGN.md section 6).  Pure generation: which object,
which configuration, which stream, which sequence of public calls.  Seeded by VERIF_SEED."""
from __future__ import annotations

from datetime import timedelta

from catalog import ALL_KINDS, AVERAGES, C05_KINDS, C06_KINDS, IndCfg
from streams import compositions, make_stream

STYLES = ["mixed", "walk", "decimal", "mixed", "walk"]
DEGENERATE = ["flat", "up", "down", "zero_vol", "mixed"]
TFS = {"S": ["S5", "S10", "S30"], "T": ["T1", "T5", "T15"], "H": ["H1", "H4"], "D": ["D1", "D2"]}


def prog_for(pre, chunks):
    prog = [("new", pre)]
    a = pre
    for k in chunks:
        prog.append(("append", a + 1, a + k))
        a += k
    if not chunks:
        prog.append(("calculate", ""))   # everything given at construction: calculate once
    return prog


def rand_cfg(rng, kind, small=True, rv=None, tf=None, fill=False, inp=None):
    """a random parameterisation of one kind (periods 2..6 keep the exact arithmetic exact)"""
    P = lambda lo=2, hi=5: rng.randint(lo, hi)  # noqa: E731
    kw = {"rv": rv if rv is not None else 4, "timeframe": tf, "fill": fill}
    if kind in ("SMA", "EMA", "RMA", "WMA"):
        kw.update(p=P(2, 6), inp=inp or rng.choice(["close", "close", "open", "high", "low"]))
        if kind == "EMA" and rng.random() < 0.2:
            kw["smoothing"] = rng.choice([2.0, 3.0, 1.5])
    elif kind == "VWMA":
        kw.update(p=P(2, 5))
    elif kind == "HMA":
        kw.update(p=rng.choice([4, 4, 5, 6, 9]), inp=inp or "close")
    elif kind in ("TR", "HLA", "OBV"):
        pass
    elif kind in ("ATR", "DONCHIAN", "HL", "AROON", "VWAP"):
        kw.update(p=P())
    elif kind in ("STDEV", "BBANDS", "ROC"):
        kw.update(p=P(2, 5), inp=inp or rng.choice(["close", "close", "high"]))
    elif kind in ("RSI",):
        kw.update(p=rng.choice([2, 2, 3, 4, 4, 5]), inp=inp or "close")
    elif kind in ("KC", "Supertrend", "STDEVTHRES"):
        kw.update(p=P(2, 4), mult=rng.choice([None, 2.0, 3.0, 1.5, 1.0]))
        if kind != "Supertrend":
            kw["inp"] = inp or "close"
    elif kind == "MACD":
        f = rng.randint(2, 3)
        kw.update(p=f, p2=f + rng.randint(1, 3), p3=rng.randint(2, 3), inp=inp or "close")
    elif kind == "STOCH":
        kw.update(p=P(2, 5), inp=inp or "close")
        if rng.random() < 0.5:
            kw.update(p2=rng.randint(2, 3), p3=rng.randint(2, 3))
    elif kind == "TSI":
        kw.update(p=rng.choice([2, 3, 4, 5]), inp=inp or "close")
        if rng.random() < 0.3:
            kw["p2"] = rng.randint(2, 3)
    elif kind == "ADX":
        kw.update(p=rng.choice([2, 2, 3, 4]))
        if rng.random() < 0.3:
            kw["p2"] = rng.randint(2, 3)
    elif kind == "Counter":
        kw.update(inp="volume", count_value=rng.choice([3, 8, 0]))
    return IndCfg(kind, **kw)


def ind_scenario(rng, fid, fam, cfg, n, style, twins=("batch",), tf=None, extra=0, pre_choices=(0, 1, 2),
                 max_chunk=4, regular=None, form="candle"):
    st = make_stream(rng, n + extra, style, tf=tf, regular=regular)
    pre, chunks = compositions(rng, n, pre_choices, max_chunk)
    return {"id": fid, "fam": fam, "obj": "ind", "inds": [cfg], "stream": st,
            "prog": prog_for(pre, chunks), "twins": list(twins), "form": form}


def hex_scenario(rng, fid, fam, cfgs, n, style, twins=("batch",), hexcfg=None, tf=None, extra=0,
                 pre_choices=(0, 1, 2), max_chunk=4, forms=None, regular=None, form="candle"):
    st = make_stream(rng, n + extra, style, tf=tf, regular=regular)
    pre, chunks = compositions(rng, n, pre_choices, max_chunk)
    return {"id": fid, "fam": fam, "obj": "hex", "inds": cfgs, "hex": hexcfg or {}, "stream": st,
            "prog": prog_for(pre, chunks), "twins": list(twins), "form": form,
            "member_forms": forms or ["obj"] * len(cfgs)}


def pick_tf(rng):
    unit = rng.choice(list(TFS))
    return rng.choice(TFS[unit])


def tf_regular(rng, tf):
    """a sensible base spacing for a timeframe: several candles per bucket"""
    from streams import tf_seconds

    s = tf_seconds(tf)
    return max(1, s // rng.choice([2, 3, 4]))


# ---------------------------------------------------------------------------------------
def fam_kinds(rng, pid, kinds, count, n=(12, 20), styles=STYLES, twins=("batch",), rvs=(4, 4, 2, 0, 5),
              tf_share=0.0):
    out = []
    for t in range(count):
        kind = kinds[t % len(kinds)]
        tf = pick_tf(rng) if rng.random() < tf_share else None
        fill = bool(tf) and rng.random() < 0.4
        cfg = rand_cfg(rng, kind, rv=rng.choice(rvs), tf=tf, fill=fill)
        nn = rng.randint(*n) + (10 if tf else 0)
        style = rng.choice(styles)
        out.append(ind_scenario(rng, f"{pid}/{kind}/{t}", "kinds", cfg, nn, style, twins, tf=tf,
                                extra=rng.randint(1, 5) if "longer" in twins else 0,
                                regular=tf_regular(rng, tf) if tf and rng.random() < 0.6 else None))
    return out


CHAIN_SOURCES = [
    ("SMA", {}, ""), ("EMA", {}, ""), ("WMA", {}, ""), ("RMA", {}, ""),
    ("BBANDS", {}, ".BBM"), ("MACD", {}, ".MACD"), ("ATR", {}, ""), ("TR", {}, ""),
    ("DONCHIAN", {}, ".DCM"), ("ROC", {}, ""),
]


def fam_chain(rng, pid, count, targets=("SMA", "EMA", "RMA", "WMA", "HMA")):
    """an average whose input is another indicator that begins late (C04 position independence)"""
    out = []
    for t in range(count):
        skind, _, fld = rng.choice(CHAIN_SOURCES)
        src = rand_cfg(rng, skind)
        live = src.build(standalone=False).name
        tgt = rand_cfg(rng, targets[t % len(targets)], inp=live + fld, rv=rng.choice([4, 4, 2, 5]))
        tgt.extra = {"name_suffix": "late"}   # keep clear of the source's default-named helpers (C13's topic)
        out.append(hex_scenario(rng, f"{pid}/chain/{skind}>{tgt.kind}/{t}", "chain", [src, tgt],
                                rng.randint(16, 24), rng.choice(["mixed", "walk", "decimal"])))
    return out


def fam_manager(rng, pid, count, fills=(False,), has=(False,), lifes=(None,), hexshare=0.25, tzs=(None,),
                units=("S", "T", "H", "D"), collapse_ops=True, twins=(), kinds=("HLA", "SMA", "EMA", "OBV"),
                tag="a"):
    """candle-manager behaviour seen through a standalone indicator or a Hexital: irregular
    second-resolution streams, every unit, construction vs chunks, repeated collapse passes"""
    from streams import tf_seconds

    out = []
    for t in range(count):
        unit = units[t % len(units)]
        n_ = rng.choice([1, 1, 2, 3, 5, 7, 10, 15, 30, 45]) if unit in "ST" else rng.choice([1, 1, 2, 3, 4, 6])
        tf = f"{unit}{n_}" if rng.random() < 0.92 else None
        fill = rng.choice(fills) and bool(tf)
        ha = rng.choice(has)
        life = rng.choice(lifes)
        secs = tf_seconds(tf) or 60
        lifespan = timedelta(seconds=int(secs * life)) if life is not None else None
        kind = kinds[t % len(kinds)]
        n = rng.randint(10, 22)
        regular = None
        r = rng.random()
        if tf and r < 0.35:
            regular = max(1, secs // rng.choice([2, 3, 4, 5]))
        elif tf and r < 0.45:
            regular = secs          # exactly one candle per bucket, on the boundary or off it
        ctype = "HA" if ha else None
        tz = rng.choice(tzs)
        if rng.random() < hexshare:
            cfg = rand_cfg(rng, kind, tf=tf if rng.random() < 0.6 else None)
            hexcfg = {"timeframe": None if cfg.timeframe else tf, "fill": fill, "lifespan": lifespan, "ctype": ctype}
            sc = hex_scenario(rng, f"{pid}/hexmgr{tag}/{tf}/{t}", "manager", [cfg], n, rng.choice(["mixed", "walk"]),
                              twins=twins, hexcfg=hexcfg, tf=tf, regular=regular, pre_choices=(0, 1, 2, n))
        else:
            cfg = rand_cfg(rng, kind, tf=tf, fill=fill)
            cfg.lifespan, cfg.ctype = lifespan, ctype
            sc = ind_scenario(rng, f"{pid}/mgr{tag}/{tf}/{t}", "manager", cfg, n, rng.choice(["mixed", "walk"]),
                              twins=twins, tf=tf, regular=regular, pre_choices=(0, 1, 2, n))
        if collapse_ops and tf and rng.random() < 0.5:
            prog = []
            for st in sc["prog"]:
                prog.append(st)
                if rng.random() < 0.4:
                    prog.append(("collapse",))
            sc["prog"] = prog
        if tz:
            sc["tz"] = tz
        out.append(sc)
    return out


TZS = ["UTC", "Asia/Kolkata", "Asia/Kathmandu", "America/New_York", "Europe/London",
       "Australia/Lord_Howe", "Pacific/Chatham", "America/St_Johns"]


def scenarios(pid, tier, rng):
    q = tier == "quick"
    k = (lambda a, b: a if q else b)
    if pid == "C04":
        av = sorted(AVERAGES)
        return fam_kinds(rng, pid, av, k(150, 900), rvs=(4, 4, 2, 0, 5, 3, 8)) + fam_chain(rng, pid, k(80, 500))
    if pid == "C05":
        return fam_kinds(rng, pid, sorted(C05_KINDS), k(240, 1500))
    if pid == "C06":
        return fam_kinds(rng, pid, sorted(C06_KINDS), k(240, 1500))
    if pid == "C09":
        return (fam_kinds(rng, pid, ALL_KINDS, k(260, 1600), styles=DEGENERATE, twins=())
                + fam_kinds(rng, pid, ALL_KINDS, k(80, 500), styles=DEGENERATE, twins=(), tf_share=1.0))
    if pid == "C10":
        return fam_kinds(rng, pid, ALL_KINDS, k(300, 1800), twins=(), tf_share=0.3)
    if pid == "C01":
        return (fam_kinds(rng, pid, ALL_KINDS, k(200, 1200), tf_share=0.6)
                + fam_chain(rng, pid, k(40, 200)))
    if pid == "C02":
        return fam_kinds(rng, pid, ALL_KINDS, k(260, 1500), twins=("longer",), tf_share=0.5)
    if pid == "C03":
        return fam_manager(rng, pid, k(300, 2000))
    if pid == "C12":
        return fam_manager(rng, pid, k(300, 2000), fills=(True,), twins=("batch",))
    if pid == "C11":
        return (fam_manager(rng, pid, k(260, 1600), has=(True,), twins=("batch",))
                + fam_manager(rng, pid, k(60, 300), has=(True,), twins=("batch",), kinds=("EMA", "RSI", "ATR", "KC"),
                              tag="b"))
    if pid == "C15":
        return (fam_manager(rng, pid, k(160, 1000), lifes=(1, 2, 3, 5, 8), fills=(False, True))
                + fam_manager(rng, pid, k(160, 1000), lifes=(6, 8, 12, 20), twins=("untrimmed",),
                              kinds=("SMA", "EMA", "RSI", "STOCH", "ATR", "MACD", "BBANDS", "OBV"), tag="b"))
    if pid == "C18":
        return fam_manager(rng, pid, k(320, 2000), tzs=TZS[1:], fills=(False, True), hexshare=0.15)
    raise KeyError(pid)
