"""Scenario families per property (DESIGN.md section 6).  Pure generation: which object,
which configuration, which stream, which sequence of public calls.  Seeded by VERIF_SEED."""
from __future__ import annotations

from datetime import timedelta

from catalog import ALL_KINDS, AVERAGES, C05_KINDS, C06_KINDS, IndCfg
from streams import compositions, make_stream

STYLES = ["mixed", "walk", "decimal", "mixed", "walk"]
DEGENERATE = ["flat", "up", "down", "zero_vol", "mixed"]
TFS = {"S": ["S5", "S10", "S30"], "T": ["T1", "T5", "T15"], "H": ["H1", "H4"], "D": ["D1", "D2"]}


def prog_for(pre, chunks):
    prog = [("new", pre)]
    a = pre
    for k in chunks:
        prog.append(("append", a + 1, a + k))
        a += k
    return prog


def rand_cfg(rng, kind, small=True, rv=None, tf=None, fill=False, inp=None):
    """a random parameterisation of one kind (periods 2..6 keep the exact arithmetic exact)"""
    P = lambda lo=2, hi=5: rng.randint(lo, hi)  # noqa: E731
    kw = {"rv": rv if rv is not None else 4, "timeframe": tf, "fill": fill}
    if kind in ("SMA", "EMA", "RMA", "WMA"):
        kw.update(p=P(2, 6), inp=inp or rng.choice(["close", "close", "open", "high", "low"]))
        if kind == "EMA" and rng.random() < 0.2:
            kw["smoothing"] = rng.choice([2.0, 3.0, 1.5])
    elif kind == "VWMA":
        kw.update(p=P(2, 5))
    elif kind == "HMA":
        kw.update(p=rng.choice([4, 4, 5, 6, 9]), inp=inp or "close")
    elif kind in ("TR", "HLA", "OBV"):
        pass
    elif kind in ("ATR", "DONCHIAN", "HL", "AROON", "VWAP"):
        kw.update(p=P())
    elif kind in ("STDEV", "BBANDS", "ROC"):
        kw.update(p=P(2, 5), inp=inp or rng.choice(["close", "close", "high"]))
    elif kind in ("RSI",):
        kw.update(p=rng.choice([2, 2, 3, 4, 4, 5]), inp=inp or "close")
    elif kind in ("KC", "Supertrend", "STDEVTHRES"):
        kw.update(p=P(2, 4), mult=rng.choice([None, 2.0, 3.0, 1.5, 1.0]))
        if kind != "Supertrend":
            kw["inp"] = inp or "close"
    elif kind == "MACD":
        f = rng.randint(2, 3)
        kw.update(p=f, p2=f + rng.randint(1, 3), p3=rng.randint(2, 3), inp=inp or "close")
    elif kind == "STOCH":
        kw.update(p=P(2, 5), inp=inp or "close")
        if rng.random() < 0.5:
            kw.update(p2=rng.randint(2, 3), p3=rng.randint(2, 3))
    elif kind == "TSI":
        kw.update(p=rng.choice([2, 3, 4, 5]), inp=inp or "close")
        if rng.random() < 0.3:
            kw["p2"] = rng.randint(2, 3)
    elif kind == "ADX":
        kw.update(p=rng.choice([2, 2, 3, 4]))
        if rng.random() < 0.3:
            kw["p2"] = rng.randint(2, 3)
    elif kind == "Counter":
        kw.update(inp="volume", count_value=rng.choice([3, 8, 0]))
    return IndCfg(kind, **kw)


def ind_scenario(rng, fid, fam, cfg, n, style, twins=("batch",), tf=None, extra=0, pre_choices=(0, 1, 2),
                 max_chunk=4, regular=None, form="candle"):
    st = make_stream(rng, n + extra, style, tf=tf, regular=regular)
    pre, chunks = compositions(rng, n, pre_choices, max_chunk)
    return {"id": fid, "fam": fam, "obj": "ind", "inds": [cfg], "stream": st,
            "prog": prog_for(pre, chunks), "twins": list(twins), "form": form}


def hex_scenario(rng, fid, fam, cfgs, n, style, twins=("batch",), hexcfg=None, tf=None, extra=0,
                 pre_choices=(0, 1, 2), max_chunk=4, forms=None, regular=None, form="candle"):
    st = make_stream(rng, n + extra, style, tf=tf, regular=regular)
    pre, chunks = compositions(rng, n, pre_choices, max_chunk)
    return {"id": fid, "fam": fam, "obj": "hex", "inds": cfgs, "hex": hexcfg or {}, "stream": st,
            "prog": prog_for(pre, chunks), "twins": list(twins), "form": form,
            "member_forms": forms or ["obj"] * len(cfgs)}


def pick_tf(rng):
    unit = rng.choice(list(TFS))
    return rng.choice(TFS[unit])


def tf_regular(rng, tf):
    """a sensible base spacing for a timeframe: several candles per bucket"""
    from streams import tf_seconds

    s = tf_seconds(tf)
    return max(1, s // rng.choice([2, 3, 4]))


# ---------------------------------------------------------------------------------------
def fam_kinds(rng, pid, kinds, count, n=(12, 20), styles=STYLES, twins=("batch",), rvs=(4, 4, 2, 0, 5),
              tf_share=0.0):
    out = []
    for t in range(count):
        kind = kinds[t % len(kinds)]
        tf = pick_tf(rng) if rng.random() < tf_share else None
        fill = bool(tf) and rng.random() < 0.4
        cfg = rand_cfg(rng, kind, rv=rng.choice(rvs), tf=tf, fill=fill)
        nn = rng.randint(*n) + (10 if tf else 0)
        style = rng.choice(styles)
        out.append(ind_scenario(rng, f"{pid}/{kind}/{t}", "kinds", cfg, nn, style, twins, tf=tf,
                                extra=rng.randint(1, 5) if "longer" in twins else 0,
                                regular=tf_regular(rng, tf) if tf and rng.random() < 0.6 else None))
    return out


CHAIN_SOURCES = [
    ("SMA", {}, ""), ("EMA", {}, ""), ("WMA", {}, ""), ("RMA", {}, ""),
    ("BBANDS", {}, ".BBM"), ("MACD", {}, ".MACD"), ("ATR", {}, ""), ("TR", {}, ""),
    ("DONCHIAN", {}, ".DCM"), ("ROC", {}, ""),
]


def fam_chain(rng, pid, count, targets=("SMA", "EMA", "RMA", "WMA", "HMA")):
    """an average whose input is another indicator that begins late (C04 position independence)"""
    out = []
    for t in range(count):
        skind, _, fld = rng.choice(CHAIN_SOURCES)
        src = rand_cfg(rng, skind)
        live = src.build(standalone=False).name
        tgt = rand_cfg(rng, targets[t % len(targets)], inp=live + fld, rv=rng.choice([4, 4, 2, 5]))
        tgt.extra = {"name_suffix": "late"}   # keep clear of the source's default-named helpers (C13's topic)
        out.append(hex_scenario(rng, f"{pid}/chain/{skind}>{tgt.kind}/{t}", "chain", [src, tgt],
                                rng.randint(16, 24), rng.choice(["mixed", "walk", "decimal"])))
    return out


def scenarios(pid, tier, rng):
    q = tier == "quick"
    k = (lambda a, b: a if q else b)
    if pid == "C04":
        av = sorted(AVERAGES)
        return fam_kinds(rng, pid, av, k(150, 900), rvs=(4, 4, 2, 0, 5, 3, 8)) + fam_chain(rng, pid, k(80, 500))
    if pid == "C05":
        return fam_kinds(rng, pid, sorted(C05_KINDS), k(240, 1500))
    if pid == "C06":
        return fam_kinds(rng, pid, sorted(C06_KINDS), k(240, 1500))
    if pid == "C09":
        return (fam_kinds(rng, pid, ALL_KINDS, k(260, 1600), styles=DEGENERATE, twins=())
                + fam_kinds(rng, pid, ALL_KINDS, k(80, 500), styles=DEGENERATE, twins=(), tf_share=1.0))
    if pid == "C10":
        return fam_kinds(rng, pid, ALL_KINDS, k(300, 1800), twins=(), tf_share=0.3)
    if pid == "C01":
        return (fam_kinds(rng, pid, ALL_KINDS, k(200, 1200), tf_share=0.6)
                + fam_chain(rng, pid, k(40, 200)))
    if pid == "C02":
        return fam_kinds(rng, pid, ALL_KINDS, k(260, 1500), twins=("longer",), tf_share=0.5)
    raise KeyError(pid)
