"""Candle stream generators (DESIGN.md Appendix B).

A stream is a list of tuples (ts_offset_seconds, open, high, low, close, volume); values are
ints or short decimals so that the specification can treat them as exact rationals.  Every
generator is well formed in the properties' sense: non-decreasing timestamps,
low <= open, close <= high, volume >= 0, positive prices.
"""
from __future__ import annotations

import random
from datetime import datetime, timedelta
from math import gcd

EPOCH = datetime(1970, 1, 1)

UNIT = {"S": 1, "T": 60, "H": 3600, "D": 86400}


def tf_seconds(tf):
    if not tf:
        return 0
    tf = tf.upper()
    return UNIT[tf[0]] * int(tf[1:])


def base_for(tfs):
    """a naive datetime whose zone-free epoch seconds are a multiple of every timeframe"""
    L = 60
    for t in tfs:
        s = tf_seconds(t)
        if s:
            L = L * s // gcd(L, s)
    # around 2023-06-01 11:00 -- NOT a midnight unless a timeframe asks for it: a timeframe that does not
    # divide the day (T7, H5, S45) has its grid anchored at the epoch, not at the day's start
    k = (1_685_617_200 + L - 1) // L
    return EPOCH + timedelta(seconds=k * L)


def _price(rng, style):
    if style == "decimal":
        return rng.choice([10, 11, 12, 13, 14, 15]) + rng.choice([0, 0.1, 0.25, 0.5, 0.7])
    return rng.randint(8, 24)


def shape(rng, prev_close, style):
    """one candle's OHLCV given the previous close"""
    dec = style == "decimal"
    step = (lambda: rng.choice([0.5, 1, 1.5, 2])) if dec else (lambda: rng.randint(1, 3))
    kind = rng.random()
    if style == "flat" or (kind < 0.08 and style not in ("inside", "repeat")):
        o = c = h = l = prev_close
    elif style == "up":
        o = prev_close
        c = o + step()
        h = c + rng.choice([0, 1])
        l = o - rng.choice([0, 1])
    elif style == "down":
        o = prev_close
        c = max(2, o - step())
        h = o + rng.choice([0, 1])
        l = max(1, c - rng.choice([0, 1]))
    else:
        # gap opens above the previous close / below it / at it
        g = rng.random()
        if g < 0.25:
            o = prev_close + step() + 1
        elif g < 0.5:
            o = max(3, prev_close - step() - 1)
        else:
            o = prev_close
        d = rng.random()
        if d < 0.2:
            c = o  # doji-like, equal closes possible
        elif d < 0.6:
            c = o + step()
        else:
            c = max(2, o - step())
        h = max(o, c) + rng.choice([0, 0, 1, 2])
        l = max(1, min(o, c) - rng.choice([0, 0, 1, 2]))
    if style == "zero_vol":
        v = 0
    else:
        v = rng.choice([0, 1, 2, 3, 3, 5, 8, 8, 13])
    if dec:
        o, h, l, c = (round(float(x), 2) for x in (o, h, l, c))
        if rng.random() < 0.3:
            v = rng.choice([0.5, 1.5, 2.25, 0.25])      # fractional volumes
    return o, h, l, c, v


def gen_inside(rng, n, repeat=False):
    """a wide first candle followed by inside bars (each high <= previous high, each low >= previous
    low; real range but no new high or low), or by exact repeats of a non-flat candle"""
    lo, hi = rng.randint(6, 10), rng.randint(20, 26)
    o = rng.randint(lo + 1, hi - 1)
    c = rng.randint(lo + 1, hi - 1)
    out = [(o, hi, lo, c, rng.choice([1, 2, 5, 8]))]
    for _ in range(n - 1):
        po, ph, pl, pc, _v = out[-1]
        if repeat:
            out.append((po, ph, pl, pc, rng.choice([0, 1, 2, 5, 8])))
            continue
        nh = ph - rng.choice([0, 0, 1]) if ph - pl > 3 else ph
        nl = pl + rng.choice([0, 0, 1]) if nh - pl > 3 else pl
        o = pc
        c = rng.randint(nl, nh)
        o = min(max(o, nl), nh)
        out.append((o, nh, nl, c, rng.choice([0, 1, 2, 5, 8])))
    return out


def gen_prices(rng, n, style="walk"):
    if style == "micro":
        # the same walk quoted in 1e-8 ticks (a token worth a few millionths): every ratio-type indicator
        # (stochastic, RSI, Aroon, ADX, TSI, ROC) must read exactly as on the unscaled stream
        return [(round(o * 1e-8, 10), round(h * 1e-8, 10), round(l * 1e-8, 10), round(c * 1e-8, 10), v)
                for o, h, l, c, v in gen_prices(rng, n, "walk")]
    """list of (o,h,l,c,v); style mixes: walk | flat | up | down | zero_vol | decimal | mixed |
    inside | repeat | inside_then_walk"""
    if style in ("inside", "repeat"):
        return gen_inside(rng, n, repeat=style == "repeat")
    if style == "outside":
        # a walk in which about every fourth candle is an outside bar of the last w candles: a new window
        # high AND a new window low in the same candle, often while the candle leaving the window held
        # neither extreme (what a rolling-extreme shortcut that updates one side per candle gets wrong)
        out = gen_prices(rng, n, "walk")
        for i in range(2, n):
            if rng.random() < 0.28:
                w = rng.randint(2, 9)
                o, h, l, c, v = out[i]
                hh = max(x[1] for x in out[max(0, i - w):i]) + rng.choice([1, 1, 2])
                ll = max(1, min(x[2] for x in out[max(0, i - w):i]) - rng.choice([1, 1, 2]))
                out[i] = (o, max(h, hh), min(l, ll), c, v)
        return out
    if style in ("flat_then_walk", "zerovol_then_walk"):
        # a long quiet opening (flat candles / no volume), then ordinary trading: readings that are
        # legitimately exactly 0 at the start of a series
        k = rng.randint(3, max(4, n // 2))
        head = gen_prices(rng, k, "flat" if style == "flat_then_walk" else "zero_vol")
        if style == "flat_then_walk" and rng.random() < 0.5:
            head = [(o, h, l, c, 0) for o, h, l, c, v in head]
        return head + gen_prices(rng, n - k, "walk")
    if style == "inside_then_walk":
        k = max(2, n // 2)
        head = gen_inside(rng, k, repeat=rng.random() < 0.5)
        tail = gen_prices(rng, n - k, "walk")
        return head + tail
    out = []
    close = _price(rng, style)
    i = 0
    while i < n:
        if style == "mixed":
            seg = rng.choice(["walk", "walk", "flat", "up", "down", "zero_vol", "ties"])
            run = rng.randint(2, 6)
        else:
            seg, run = style, n
        for _ in range(min(run, n - i)):
            if seg == "ties":
                # repeat a previous high / low / close with different volume
                if out and rng.random() < 0.6:
                    o, h, l, c, v = out[-1]
                    v = rng.choice([1, 2, 5, 8]) if v == 0 or rng.random() < 0.7 else v
                    out.append((o, h, l, c, v))
                    i += 1
                    continue
                seg_ = "walk"
            else:
                seg_ = seg
            o, h, l, c, v = shape(rng, close, seg_)
            out.append((o, h, l, c, v))
            close = c
            i += 1
    return out


def gen_times(rng, n, tf=None, start_on=True, regular=None):
    """timestamp offsets in seconds.  Without a timeframe: one candle a minute.  With one:
    gaps from the alphabet {0, 1s, <tf, =tf, tf+1s, 2tf, 2tf+1s, many tf}."""
    s = tf_seconds(tf)
    if not s:
        step = regular or 60
        return [i * step for i in range(n)]
    if regular:
        t0 = 0 if start_on else rng.randint(1, max(1, min(s - 1, regular)))
        return [t0 + i * regular for i in range(n)]
    unit = 1
    sub = max(1, s // rng.choice([2, 3, 4, 5]))
    alphabet = [0, unit, sub, sub, sub, s, s + unit, 2 * s, 2 * s + unit, rng.randint(3, 6) * s + sub]
    weights = [1, 2, 6, 6, 6, 3, 2, 2, 1, 1]
    t = 0 if start_on else rng.randint(1, s - 1) if s > 1 else 0
    out = []
    for _ in range(n):
        out.append(t)
        t += rng.choices(alphabet, weights)[0]
    return out


def make_stream(rng, n, style="mixed", tf=None, start_on=None, regular=None, t0=0):
    if start_on is None:
        start_on = rng.random() < 0.5
    ps = gen_prices(rng, n, style)
    ts = gen_times(rng, n, tf, start_on, regular)
    return [(t + t0,) + p for t, p in zip(ts, ps)]


def compositions(rng, n, pre_choices=(0, 1, 2), max_chunk=4):
    """a random schedule: (pre, [chunk sizes])"""
    pre = min(n, rng.choice(pre_choices))
    rest = n - pre
    chunks = []
    while rest > 0:
        k = min(rest, rng.randint(1, max_chunk))
        chunks.append(k)
        rest -= k
    return pre, chunks
