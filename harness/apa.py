"""Apalache runs: the unbounded (inductive) lemma about the bucket arithmetic, spec/Apa_Walk.tla."""
from __future__ import annotations

import os
import shutil
import subprocess
import tempfile
import time
from concurrent.futures import ThreadPoolExecutor

import tlc
from mc import SpecViolation


def run_apalache(name, module, init, inv, length, nxt=None, expect_violation=False, timeout=900):
    out_dir = tempfile.mkdtemp(prefix="apa_")
    cmd = ["apalache-mc", "check", f"--init={init}", f"--inv={inv}", f"--length={length}",
           f"--out-dir={out_dir}", f"--run-dir={out_dir}/run"]
    if nxt:
        cmd.append(f"--next={nxt}")
    cmd.append(module)
    t0 = time.time()
    env = dict(os.environ, JVM_ARGS="-Xmx3g")
    try:
        p = subprocess.run(cmd, cwd=tlc.SPEC_DIR, capture_output=True, text=True, timeout=timeout, env=env)
    except subprocess.TimeoutExpired:
        raise SpecViolation(f"{name}: apalache timeout after {timeout}s")
    finally:
        shutil.rmtree(out_dir, ignore_errors=True)
    out = p.stdout + p.stderr
    ok = "The outcome is: NoError" in out
    bad = "The outcome is: Error" in out and "invariant" in out and "violated" in out
    if expect_violation:
        if not bad:
            raise SpecViolation(f"{name}: the deliberately wrong run was not refuted (vacuous?)\n" + out[-1500:])
    elif not ok:
        raise SpecViolation(f"{name}: Apalache did not prove the step\n" + out[-2500:])
    return {"name": name, "module": module, "cfg": f"--init={init} --inv={inv} --length={length}" + (f" --next={nxt}" if nxt else ""),
            "constants": "all integers: tf > 0, every window and timestamp (no bound)", "distinct": 0, "states": 0,
            "wall": round(time.time() - t0, 1), "violated": [inv] if bad else [], "tool": "apalache-mc 0.58 (SMT, inductive)"}


def walk_lemma():
    """Init => IndInv; IndInv /\\ Next => IndInv' (for all integers); and the two non-vacuity runs"""
    jobs = [("Apa_Walk base case", "Init", "IndInv", 0, None, False),
            ("Apa_Walk inductive step", "IndInit", "IndInv", 1, None, False),
            ("Apa_Walk wrong invariant (must fail)", "IndInit", "WrongInv", 1, None, True),
            ("Apa_Walk input one bucket back (must fail)", "IndInit", "IndInv", 1, "NextLoose", True)]
    with ThreadPoolExecutor(4) as ex:
        futs = [ex.submit(run_apalache, n, "Apa_Walk.tla", i, v, l, nx, e) for n, i, v, l, nx, e in jobs]
        return [f.result() for f in futs]
