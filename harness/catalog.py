"""Indicator configurations: how to build the real object and what the spec is told.

The spec is told only the CONSTRUCTOR ARGUMENTS (kind, periods, input reference, multiplier,
round_value) plus the name the live object reports; helper names / wiring / formulas are derived
by the specification itself (spec/Indicators.tla: SeriesOf), not copied from the live object.
"""
from __future__ import annotations

from fractions import Fraction

from proj import val

# spec kind -> (INDICATOR_MAP key, ctor argument names for p / p2 / p3)
KINDS = {
    "SMA": ("SMA", ("period",)),
    "EMA": ("EMA", ("period",)),
    "RMA": ("RMA", ("period",)),
    "WMA": ("WMA", ("period",)),
    "VWMA": ("VWMA", ("period",)),
    "HMA": ("HMA", ("period",)),
    "TR": ("TR", ()),
    "ATR": ("ATR", ("period",)),
    "STDEV": ("STDEV", ("period",)),
    "BBANDS": ("BBANDS", ("period",)),
    "KC": ("KC", ("period",)),
    "DONCHIAN": ("donchian", ("period",)),
    "HL": ("HL", ("period",)),
    "HLA": ("HLA", ()),
    "Supertrend": ("Supertrend", ("period",)),
    "STDEVTHRES": ("STDEVTHRES", ("period",)),
    "Counter": ("Counter", ()),
    "RSI": ("RSI", ("period",)),
    "MACD": ("MACD", ("fast_period", "slow_period", "signal_period")),
    "ROC": ("ROC", ("period",)),
    "STOCH": ("STOCH", ("period", "smoothing_k", "slow_period")),
    "TSI": ("TSI", ("period", "smooth_period")),
    "AROON": ("aroon", ("period",)),
    "ADX": ("ADX", ("period", "period_signal")),
    "OBV": ("OBV", ()),
    "VWAP": ("VWAP", ("period",)),
    "Amorph": ("Amorph", ()),
}
HAS_INPUT = {"SMA", "EMA", "RMA", "WMA", "HMA", "STDEV", "BBANDS", "KC", "STDEVTHRES", "Counter",
             "RSI", "MACD", "ROC", "STOCH", "TSI"}
HAS_MULT = {"KC": "multiplier", "Supertrend": "multiplier", "STDEVTHRES": "multiplier"}
AVERAGES = {"SMA", "EMA", "RMA", "WMA", "VWMA", "HMA"}
C05_KINDS = {"TR", "ATR", "STDEV", "BBANDS", "KC", "DONCHIAN", "HL", "HLA", "Supertrend",
             "STDEVTHRES", "Counter"}
C06_KINDS = {"RSI", "MACD", "ROC", "STOCH", "TSI", "AROON", "ADX", "OBV", "VWAP"}
ALL_KINDS = [k for k in KINDS if k != "Amorph"]
PATTERNS = ("doji", "dojistar", "hammer", "inv_hammer")
MOVEMENTS = ("above", "below", "rising", "falling", "mean_rising", "mean_falling", "highest", "lowest",
             "highestbar", "lowestbar", "value_range", "cross", "crossover", "crossunder", "positive",
             "negative")


def kind_property(kind):
    if kind in AVERAGES:
        return "C04"
    if kind in C05_KINDS:
        return "C05"
    if kind in C06_KINDS:
        return "C06"
    if kind == "Amorph":
        return "C16"
    return "C01"


def ref(name):
    if "." in name:
        n, f = name.split(".", 1)
        return {"n": n, "f": f}
    return {"n": name, "f": ""}


def fr(x):
    f = Fraction(str(x))
    return [f.numerator, f.denominator]


class IndCfg:
    """One top-level indicator: kind + constructor arguments."""

    def __init__(self, kind, p=0, p2=0, p3=0, inp="close", mult=None, smoothing=None, rv=4,
                 count_value=True, timeframe=None, fill=False, lifespan=None, ctype=None, mg=1,
                 extra=None, fn="", inp2=""):
        self.fn, self.inp2 = fn, inp2       # Amorph: analysis function name, second series
        self.kind, self.p, self.p2, self.p3 = kind, p, p2, p3
        self.inp, self.mult, self.smoothing, self.rv = inp, mult, smoothing, rv
        self.count_value = count_value
        self.timeframe, self.fill, self.lifespan, self.ctype = timeframe, fill, lifespan, ctype
        self.mg = mg
        self.extra = extra or {}

    def kwargs(self, standalone=True):
        cls, pnames = KINDS[self.kind]
        kw = {}
        for name, value in zip(pnames, (self.p, self.p2, self.p3)):
            if value:
                kw[name] = value
        if self.kind == "Amorph":
            kw.update(self.analysis_args())
        if self.kind in HAS_INPUT:
            kw["input_value"] = self.inp
        if self.kind in HAS_MULT and self.mult is not None:
            kw[HAS_MULT[self.kind]] = self.mult
        if self.kind == "EMA" and self.smoothing is not None:
            kw["smoothing"] = self.smoothing
        if self.kind == "Counter":
            kw["count_value"] = self.count_value
        if self.rv != 4:
            kw["round_value"] = self.rv
        if self.timeframe:
            kw["timeframe"] = self.timeframe_arg()
        if standalone:
            if self.fill:
                kw["timeframe_fill"] = True
            if self.lifespan is not None:
                kw["candles_lifespan"] = self.lifespan
            if self.ctype:
                kw["candlestick_type"] = self.ctype
        kw.update({k: v for k, v in self.extra.items() if not k.startswith("_")})
        return kw

    def timeframe_arg(self):
        """the timeframe as the caller spells it: upper case, lower case or the TimeFrame enum"""
        form = self.extra.get("_tf_form", "upper") if self.extra else "upper"
        tf = self.timeframe
        if form == "lower":
            return tf.lower()
        if form == "enum":
            from hexital import TimeFrame

            for member in TimeFrame:
                if member.value == tf.upper():
                    return member
        return tf

    def analysis_args(self):
        """keyword arguments of the wrapped analysis function (Amorph)"""
        fn = self.fn
        if fn in PATTERNS:
            return {"lookback": self.p} if self.p else {}
        if fn in ("positive", "negative"):
            return {}
        if fn in ("cross", "crossover", "crossunder"):
            return {"indicator_one": self.inp, "indicator_two": self.inp2, "length": self.p}
        if fn in ("above", "below"):
            return {"indicator": self.inp, "indicator_two": self.inp2}
        return {"indicator": self.inp, "length": self.p}

    def build(self, candles=None, standalone=True):
        from hexital.indicators import INDICATOR_MAP

        cls = INDICATOR_MAP[KINDS[self.kind][0]]
        kw = self.kwargs(standalone)
        if candles is not None:
            kw["candles"] = candles
        if self.kind == "Amorph":
            from hexital.analysis import MOVEMENT_MAP, PATTERN_MAP

            kw["analysis"] = self.user_callable() or {**MOVEMENT_MAP, **PATTERN_MAP}[self.fn]
        return cls(**kw)

    def user_callable(self):
        """extra["_user_fn"] = a name: the analysis is a function WRITTEN BY THE USER that happens to be called
        like a built-in one (`rising`, `doji`, ...) but computes something else -- here what the built-in
        `self.fn` computes, so the specification knows its meaning.  A callable is used as given, whatever
        its name."""
        alias = (self.extra or {}).get("_user_fn")
        if not alias:
            return None
        from hexital.analysis import MOVEMENT_MAP, PATTERN_MAP

        real = {**MOVEMENT_MAP, **PATTERN_MAP}[self.fn]

        def user_fn(**kwargs):
            return real(**kwargs)

        user_fn.__name__ = alias
        user_fn.__qualname__ = alias
        return user_fn

    def as_dict(self):
        if self.kind == "Amorph":
            # analysis arguments go under "args" ("indicator" at the top level names a class)
            d = {"analysis": self.user_callable() or self.fn, "args": self.analysis_args()}
            d.update({k: v for k, v in self.kwargs(standalone=False).items()
                      if k not in self.analysis_args()})
            return d
        d = {"indicator": KINDS[self.kind][0]}
        d.update(self.kwargs(standalone=False))
        return d

    def spec(self, live_name):
        """the record the TLA+ spec receives (uniform field set)"""
        mult = self.mult
        if mult is None:
            mult = {"KC": 2.0, "Supertrend": 3.0, "STDEVTHRES": 2.0}.get(self.kind, 0)
        if self.kind == "EMA":
            mult = 2.0 if self.smoothing is None else self.smoothing
        p, p2, p3 = self.p, self.p2, self.p3
        # constructor defaults the spec must know as numbers
        if self.kind == "STOCH":
            p2 = p2 or 3
            p3 = p3 or 3
        if self.kind == "TSI" and not p2:
            p2 = p // 2 + (1 if p % 2 else 0)
        if self.kind == "ADX" and not p2:
            p2 = p
        return {
            "kind": self.kind,
            "name": live_name,
            "mg": self.mg,
            "rv": self.rv,
            "p": p,
            "p2": p2,
            "p3": p3,
            "in": ref(self.inp if (self.kind in HAS_INPUT or self.kind == "Amorph") else ""),
            "fn": self.fn,
            "in2": ref(self.inp2),
            "m": fr(mult),
            "cv": val(self.count_value),
        }

    def mg_index(self, names):
        tf = (self.timeframe or "").upper()
        return names.index(tf) + 1 if names and tf and tf in names else 1

    FIELDS = ("kind", "p", "p2", "p3", "inp", "mult", "smoothing", "rv", "count_value",
              "timeframe", "fill", "ctype", "mg", "extra", "fn", "inp2")

    def clone(self, **over):
        kw = {f: getattr(self, f) for f in self.FIELDS}
        kw["lifespan"] = self.lifespan
        kw.update(over)
        return IndCfg(**kw)

    def to_json(self):
        d = {f: getattr(self, f) for f in self.FIELDS}
        d["lifespan"] = None if self.lifespan is None else self.lifespan.total_seconds()
        return d

    @staticmethod
    def from_json(d):
        from datetime import timedelta

        d = dict(d)
        if d.get("lifespan") is not None:
            d["lifespan"] = timedelta(seconds=d["lifespan"])
        return IndCfg(**d)

    def label(self):
        return f"{self.kind}({self.p},{self.p2},{self.p3},{self.inp},m={self.mult},rv={self.rv},tf={self.timeframe})"
