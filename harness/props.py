"""Per-property check drivers."""
from __future__ import annotations

import checklib
import families


def run(pid, tier, seed, rng, t0):
    scs = families.scenarios(pid, tier, rng)
    return checklib.trace_check(pid, tier, seed, scs, t0=t0)
