"""Per-property check drivers: design-level TLC runs, trace validation, spec -> code replay."""
from __future__ import annotations

import json
import os
import time

import checklib
import families
import mc
import tlc

MGR_PROPS = {"C03": "C03_Resample", "C11": "C11_HA", "C12": "C12_Fill", "C15": "C15_Window"}


def manager_models(pid, tier):
    """MC_Manager: invariants of all manager properties on the bounded model, the emission of
    every distinct state for replay, and the deviation config that must break C11"""
    q = tier == "quick"
    cfg = "MC_Manager_emit_quick.cfg" if q else "MC_Manager_emit.cfg"
    consts = ("TF=3, MaxLen=%d, MaxChunk=3, Gaps={0,1,2,3,4,7}, Offsets={0,1,3}, Lifes={none,4,7}, "
              "fill/HA on and off, 0..2 candles at construction" % (4 if q else 5))
    st = mc.run_model("MC_Manager", "MC_Manager", cfg, consts, keep_out=True, timeout=3000)
    states = tlc.tagged_json(st.pop("out"), "EMIT")
    stats = [st]
    if not q:
        # one level deeper, without emission (1.3 M distinct states, about 6 minutes)
        stats.append(mc.run_model("MC_Manager (deep)", "MC_Manager", "MC_Manager_deep.cfg",
                                  consts.replace("MaxLen=5", "MaxLen=6"), timeout=3400))
    if pid == "C03":
        # the bucket assignment of one walk step for ALL integers (Apalache, inductive); the step operator
        # is the one Manager.tla's Walk is built from (Buckets.tla)
        import apa

        stats += apa.walk_lemma()
    if pid == "C11":
        stats.append(mc.run_model("MC_Manager+HA_convindex_single_tag (must fail)", "MC_Manager",
                                  "MC_Manager_devHA.cfg", "as MC_Manager MaxLen=5, Dev={HA_convindex_single_tag}",
                                  expect_violation="C11_HA"))
    return stats, states


def replay_manager(pid, tier, states):
    import replay_mgr

    q = tier == "quick"
    want = {"C03": lambda c: c["tf"] and not c["fill"], "C12": lambda c: c["fill"],
            "C11": lambda c: c["ha"], "C15": lambda c: c["life"] >= 0}[pid]
    # Heikin-Ashi together with a lifespan is schedule dependent by construction (the recurrence
    # restarts when the predecessor of the forming bucket has been trimmed) and outside every
    # property's quantifier: those model states have no unique expected value
    sel = [s for s in states if want(s["cfg"]) and not (s["cfg"]["ha"] and s["cfg"]["life"] >= 0)]
    bad = []
    n = 0
    for i, s in enumerate(sel):
        via = "manager" if i % 2 == 0 else "indicator"
        b = replay_mgr.replay_state(s, all_compositions=not q, max_chunk=3, via=via)
        n += 1
        if b:
            bad.append((s, b))
    return n, bad, sel


ENGINE_PROPS = {"C01", "C02", "C07", "C13", "C14"}


def engine_models(pid, tier):
    """MC_Engine: the engine (resume index, skip-present, merge wipes, purge, calculate_index)
    driven by every interleaving of appends and maintenance calls over real indicator kinds"""
    q = tier == "quick"
    cfg = "MC_Engine_quick.cfg" if q else "MC_Engine_mid.cfg"
    consts = ("TF=3, MaxLen=3, MaxOps=%d; menu EMA_2/SMA_2/ATR_2/RSI_2/STOCH_2/OBV in 6 pairs; timeframe none / 3 / "
              "3+fill; alphabet {rising, falling-with-gap, flat zero-volume}; gaps {1,2}" % (1 if q else 2))
    stats = [mc.run_model("MC_Engine", "MC_Engine", cfg, consts, timeout=3000)]
    if pid == "C01":
        stats.append(mc.run_model("MC_Engine+merge_keeps_readings (must fail)", "MC_Engine", "MC_Engine_dev.cfg",
                                  consts + ", Dev={merge_keeps_readings}", expect_violation="C01_IncEqBatch"))
    return stats


IND_PROPS = {"C04", "C05", "C06", "C09", "C10"}


def indicator_models(pid, tier):
    """MC_Indicators: the engine driven by the layer functions F equals the definitional columns
    (Defs.tla) on every stream of the alphabet; structural relations hold on every state"""
    q = tier == "quick"
    cfg = "MC_Indicators_quick.cfg" if q else "MC_Indicators_deep.cfg"
    consts = ("all streams of length <= %d over 5 candle symbols (up, down, gap up, gap down/zero volume, flat); "
              "26 indicator configurations with periods 2-4; exact rationals, no rounding" % (4 if q else 6))
    stats = [mc.run_model("MC_Indicators", "MC_Indicators", cfg, consts, timeout=3400)]
    if pid == "C06":
        stats.append(mc.run_model("MC_Indicators+OBV_volume_rule (must fail)", "MC_Indicators",
                                  "MC_Indicators_DevOBV.cfg", "length 4, Dev={OBV_volume_rule}",
                                  expect_violation="DefsAgree"))
    if pid == "C05":
        stats.append(mc.run_model("MC_Indicators+lookback_wraps (must fail)", "MC_Indicators",
                                  "MC_Indicators_DevWrap.cfg", "length 4, Dev={lookback_wraps}",
                                  expect_violation="DefsAgree"))
    return stats


def analysis_models(pid, tier):
    """MC_Analysis: causality, index consistency, scale/shift invariance and 'missing is never
    true' of the specification's movement and pattern functions on every small candle list"""
    q = tier == "quick"
    cfg = "MC_Analysis_quick.cfg" if q else "MC_Analysis.cfg"
    consts = ("all lists of length <= %d with readings a,b from {None,1,2,3}; 16 movement functions, lengths 1..3, "
              "every index; a 10-candle neutral history plus <= %d candles from 7 shapes for the 4 patterns, "
              "lookbacks {none,1,3,12}" % ((3, 2) if q else (4, 3)))
    stats = [mc.run_model("MC_Analysis", "MC_Analysis", cfg, consts, timeout=3400)]
    if pid == "C16":
        stats.append(mc.run_model("MC_Analysis+analysis_wraps (must fail)", "MC_Analysis", "MC_Analysis_dev.cfg",
                                  "length 3, Dev={analysis_wraps}", expect_violation="C16_Causal"))
    return stats


def hexital_models(pid, tier):
    """MC_Hexital: a member's timeframe manager (built from copies of the default candles, at
    construction or by add_indicator later, then fed alongside) equals the standalone manager"""
    q = tier == "quick"
    consts = ("TF=3, member timeframe in {3,6}, Hexital timeframe in {none,3}, fill, Heikin-Ashi, lifespan in "
              "{none,8}; streams <= %d over gaps {0,1,2,4,7}, chunks <= %d, 0..2 candles at construction, "
              "member present from the start or added later" % ((4, 2) if q else (5, 3)))
    return [mc.run_model("MC_Hexital", "MC_Hexital", "MC_Hexital_quick.cfg" if q else "MC_Hexital.cfg", consts, timeout=3400),
            mc.run_model("MC_Hexital+from_default (as shipped before the repair of K01/K02; must fail)", "MC_Hexital",
                         "MC_Hexital_devK.cfg", "quick constants, Dev={from_default}", expect_violation="C08_AtConstruction"),
            mc.run_model("MC_Hexital late member under a lifespan (outside the claim; must fail)", "MC_Hexital",
                         "MC_Hexital_K01.cfg", "quick constants; the invariant without the lifespan exclusion for late members",
                         expect_violation="K01_Holds"),
            mc.run_model("MC_Hexital late member under gap filling (outside the claim; must fail)", "MC_Hexital",
                         "MC_Hexital_K02.cfg", "quick constants; the invariant without the fill exclusion for late members",
                         expect_violation="K02_Holds")]


def lifespan_models(pid, tier):
    """MC_Lifespan: the engine on a list a lifespan trims from the front -- the retained window is the
    definitional one and, while the property's look-back precondition holds, the readings are those of the
    untrimmed run; the as-shipped resume rule (resume_zero) must break it; the claim is not vacuous"""
    q = tier == "quick"
    consts = ("one of EMA_2/ATR_2/RSI_2/KC_2/OBV/SMA_2/STOCH_2; timeframe none / 2; lifespan %s; streams <= %d over 3 "
              "candle symbols, gaps {1,2}, chunks 1..3" % (("{2}", 5) if q else ("{2,3}", 6)))
    return [mc.run_model("MC_Lifespan", "MC_Lifespan", "MC_Lifespan_quick.cfg" if q else "MC_Lifespan.cfg", consts,
                         timeout=3400),
            mc.run_model("MC_Lifespan+resume_zero (must fail)", "MC_Lifespan", "MC_Lifespan_dev.cfg",
                         "quick constants, Dev={resume_zero}", expect_violation="C15_Tail"),
            mc.run_model("MC_Lifespan witness (claim made on trimmed warmed-up lists)", "MC_Lifespan",
                         "MC_Lifespan_witness.cfg", "quick constants", expect_violation="Witness")]


def run(pid, tier, seed, rng, t0):
    scs = families.scenarios(pid, tier, rng)
    mc_stats, extra, rc_replay = [], {}, 0
    if pid == "C08":
        mc_stats = hexital_models(pid, tier)
    if pid in ("C16", "C17"):
        mc_stats = analysis_models(pid, tier)
    if pid in IND_PROPS:
        mc_stats = indicator_models(pid, tier)
    if pid in ENGINE_PROPS:
        mc_stats = engine_models(pid, tier)
        # spec -> code: behaviours of the engine model (TLC simulation, every call with the state the
        # specification expects after it) driven into a real Hexital and compared after every call
        import replay_engine

        behs, r = replay_engine.behaviours(12 if tier == "quick" else 160, 16, seed % 100000)
        mc_stats.append({"name": "MC_EngineEmit (simulation, behaviours for replay)", "module": "MC_EngineEmit",
                         "cfg": "MC_EngineEmit.cfg", "constants": "TF=3, MaxLen=8, MaxOps=3, chunks 1..2; 19 kinds in every ordered pair; 6 candle symbols; timeframe none/3/3+fill, lifespans 5 and 9, Heikin-Ashi",
                         "distinct": len(behs), "states": r["states"], "wall": round(r["wall"], 1), "violated": []})
        badb = [(b, m) for b, m in ((b, replay_engine.replay(b)) for b in behs) if m]
        extra["spec_to_code_replayed_behaviours"] = len(behs)
        extra["spec_to_code_calls_compared"] = sum(len(b["hist"]) for b in behs)
        extra["spec_to_code_mismatches"] = len(badb)
        extra["spec_to_code_sample"] = replay_engine.program(behs[len(behs) // 2]) if behs else None
        for k, (b, m) in enumerate(badb[:3]):
            os.makedirs(checklib.REPLAYS, exist_ok=True)
            path = os.path.join(checklib.REPLAYS, f"{pid}_{seed}_model_{k}.json")
            json.dump({"property": pid, "behaviour": b, "mismatch": m}, open(path, "w"))
            print(f"VIOLATION property={pid} replay={path}")
            print(f"  model behaviour {replay_engine.program(b)} cfg={b['cfg']}: {m[0]}")
            rc_replay = 1
    if pid in MGR_PROPS:
        mc_stats, states = manager_models(pid, tier)
        if pid == "C15":
            mc_stats += lifespan_models(pid, tier)
        n, bad, sel = replay_manager(pid, tier, states)
        extra["spec_to_code_replayed_states"] = n
        extra["spec_to_code_mismatches"] = len(bad)
        extra["spec_to_code_sample"] = sel[len(sel) // 2] if sel else None
        for k, (s, b) in enumerate(bad[:3]):
            os.makedirs(checklib.REPLAYS, exist_ok=True)
            path = os.path.join(checklib.REPLAYS, f"{pid}_{seed}_model_{k}.json")
            json.dump({"property": pid, "model_state": s, "mismatch": b}, open(path, "w"))
            print(f"VIOLATION property={pid} replay={path}")
            print(f"  model state cfg={s['cfg']} pre={s['pre']} raw_ts={[c['ts'] for c in s['raw']]}: "
                  f"the library's candles differ from the specification's for composition {b[0]['composition']}")
            rc_replay = 1
    rc = checklib.trace_check(pid, tier, seed, scs, mc_stats=mc_stats, extra_cov=extra, t0=t0,
                              extra_violations=1 if rc_replay else 0)
    return 1 if (rc or rc_replay) else 0
