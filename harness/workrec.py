"""Work recorder for C07: which (indicator name, index) readings were computed during one
append, how far back candles were read, how many lines of indicator code ran.
Uses sys.monitoring (Python 3.12) from outside the library: no hook in /repo."""
from __future__ import annotations

import sys

TOOL = 3


class Recorder:
    def __init__(self):
        self.mon = sys.monitoring
        self.calls = []
        self.minread = -1
        self.lines = 0
        self.mlines = 0       # candle-manager housekeeping (core/candle_manager.py, core/candle.py)
        self.idmap = {}

    def _interesting(self, code):
        f = code.co_filename
        return "/hexital/" in f

    def start(self, ses):
        self.calls, self.minread, self.lines, self.mlines = [], -1, 0, 0
        self.idmap = {}
        for _, cs in ses.managers():
            for i, c in enumerate(cs):
                self.idmap[id(c)] = i
        mon = self.mon
        mon.use_tool_id(TOOL, "verif-work")
        E = mon.events

        def on_start(code, offset):
            if not self._interesting(code):
                return mon.DISABLE
            name = code.co_name
            if name == "_calculate_reading":
                fr = sys._getframe(1)
                slf = fr.f_locals.get("self")
                self.calls.append([getattr(slf, "name", "?"), int(fr.f_locals.get("index", -1))])
            elif name == "reading_by_candle":
                fr = sys._getframe(1)
                idx = self.idmap.get(id(fr.f_locals.get("candle")))
                if idx is not None and (self.minread < 0 or idx < self.minread):
                    self.minread = idx
            return None

        def on_line(code, line):
            if not self._interesting(code):
                return mon.DISABLE
            f = code.co_filename
            if "/indicators/" in f or "/core/indicator.py" in f or "/analysis/" in f or "/utils/" in f:
                self.lines += 1
            elif "/core/candle_manager.py" in f or "/core/candle.py" in f:
                self.mlines += 1
            return None

        mon.register_callback(TOOL, E.PY_START, on_start)
        mon.register_callback(TOOL, E.LINE, on_line)
        mon.set_events(TOOL, E.PY_START | E.LINE)

    def stop(self, ses):
        mon = self.mon
        mon.set_events(TOOL, 0)
        mon.register_callback(TOOL, mon.events.PY_START, None)
        mon.register_callback(TOOL, mon.events.LINE, None)
        mon.free_tool_id(TOOL)
        mon.restart_events()
        # the manager whose candle list is the longest-lived is irrelevant: report per call the
        # manager of the indicator; single-manager scenarios use j = 1
        return {"j": 1, "calls": self.calls, "minread": self.minread, "lines": self.lines,
                "mlines": self.mlines}
