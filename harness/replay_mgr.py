"""spec -> code: every distinct state of the manager model (cfg, construction prefix, raw stream,
expected candles) is replayed into the real CandleManager / Indicator under append schedules and
the projected candles are compared field by field with what TLC computed."""
from __future__ import annotations

import itertools
import os
import sys
from datetime import datetime, timedelta
from fractions import Fraction

sys.path.insert(0, os.environ.get("HEXITAL_REPO", "/repo"))  # /repo unless a run snapshot is given

BASE = datetime(2023, 6, 1)   # multiple of 3 s on the zone-free axis


def _compositions(n, max_chunk):
    if n == 0:
        yield ()
        return
    for k in range(1, min(n, max_chunk) + 1):
        for rest in _compositions(n - k, max_chunk):
            yield (k,) + rest


def _mk(c):
    from hexital import Candle

    f = lambda q: q[0] / q[1] if q[1] != 1 else q[0]  # noqa: E731
    return Candle(open=f(c["o"]), high=f(c["h"]), low=f(c["l"]), close=f(c["c"]), volume=f(c["v"]),
                  timestamp=BASE + timedelta(seconds=c["ts"]))


def _proj(c):
    fr = lambda x: [Fraction(x).numerator, Fraction(x).denominator]  # noqa: E731
    cl = c.clean_values
    return {"ts": int((c.timestamp - BASE).total_seconds()), "o": fr(c.open), "h": fr(c.high),
            "l": fr(c.low), "c": fr(c.close), "v": fr(c.volume), "tag": c.tag or "",
            "cl": [] if not cl else [fr(cl["open"]), fr(cl["high"]), fr(cl["low"]), fr(cl["close"]),
                                     fr(cl["volume"]), [int((cl["timestamp"] - BASE).total_seconds()), 1]]}


def replay_state(st, all_compositions, max_chunk, via="manager"):
    """returns list of mismatches (empty = conforms)"""
    from hexital.core.candle_manager import CandleManager
    from hexital.indicators import HighLowAverage

    cfg = st["cfg"]
    raw, pre = st["raw"], st["pre"]
    tf = f"S{cfg['tf']}" if cfg["tf"] else None
    life = timedelta(seconds=cfg["life"]) if cfg["life"] >= 0 else None
    rest = len(raw) - pre
    comps = list(_compositions(rest, max_chunk))
    if not all_compositions and len(comps) > 1:
        comps = [comps[hash((len(raw), pre, cfg["tf"], cfg["life"], raw[-1]["ts"])) % len(comps)]]
    bad = []
    for comp in comps:
        ctype = None
        if cfg["ha"]:
            from hexital.candlesticks import CANDLESTICK_MAP

            ctype = CANDLESTICK_MAP["HA"]()
        try:
            first = [_mk(c) for c in raw[:pre]]
            if via == "manager":
                m = CandleManager(first, candles_lifespan=life, timeframe=tf,
                                  timeframe_fill=cfg["fill"], candlestick_type=ctype)
                app = m.append
                get = lambda: m.candles  # noqa: E731
            else:
                ind = HighLowAverage(candles=first, candles_lifespan=life, timeframe=tf,
                                     timeframe_fill=cfg["fill"], candlestick_type=ctype)
                app = ind.append
                get = lambda: ind.candles  # noqa: E731
            a = pre
            for k in comp:
                app([_mk(c) for c in raw[a:a + k]])
                a += k
            got = [_proj(c) for c in get()]
            okflag = True
        except Exception as e:  # the model says whether an exception is expected
            got, okflag = type(e).__name__, False
        if okflag != st["ok"] or (okflag and got != st["exp"]):
            bad.append({"composition": list(comp), "got": got})
    return bad
