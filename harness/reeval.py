"""Re-run checks for a seeded change already kept under seeded/<name>/ (its scratch worktree is gone):
apply patch.diff to /repo, run the checks, undo; append the result to meta.json.
usage: reeval.py <name> [checks,comma,separated]"""
import json, os, subprocess, sys, time

name = sys.argv[1]
ROOT = os.path.dirname(os.path.dirname(os.path.abspath(__file__)))
dst = os.path.join(ROOT, "seeded", name)
meta = json.load(open(os.path.join(dst, "meta.json")))
ids = (sys.argv[2] if len(sys.argv) > 2 else meta["property"]).split(",")


def sh(cmd, cwd=None):
    p = subprocess.run(cmd, shell=True, cwd=cwd, capture_output=True, text=True)
    return p.returncode, p.stdout + p.stderr


rc, out = sh(f"git -C /repo apply {os.path.join(dst, 'patch.diff')}")
assert rc == 0, out
try:
    for pid in ids:
        t0 = time.time()
        rc, out = sh(f"./check {pid} --tier quick", cwd=ROOT)
        lines = [l for l in out.splitlines() if l.startswith(("VIOLATION", "KNOWN", "MACHINERY")) or " quick seed=" in l]
        meta.setdefault("ran", []).append({"check": pid, "rc": rc, "wall_s": round(time.time() - t0, 1), "lines": lines[:6],
                                           "detail": [l for l in out.splitlines() if l.startswith("  scenario")][:2],
                                           "note": "re-run after the families / clauses were generalised"})
        print(pid, "rc=", rc, lines[-1] if lines else out[-300:])
finally:
    sh("git -C /repo checkout -- .")
    rc, out = sh("git -C /repo status --short")
    assert out.strip() == "", out
meta["detected_by"] = sorted({r["check"] for r in meta["ran"] if r["rc"] == 1})
json.dump(meta, open(os.path.join(dst, "meta.json"), "w"), indent=1)
print("detected_by:", meta["detected_by"])
