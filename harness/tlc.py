"""Run TLC on a specification and collect what it printed."""
from __future__ import annotations

import json
import os
import re
import shutil
import subprocess
import tempfile
import time

SPEC_DIR = os.path.join(os.path.dirname(os.path.dirname(os.path.abspath(__file__))), "spec")
JAR = "/opt/veriftools/tla/tla2tools.jar:/opt/veriftools/tla/CommunityModules-deps.jar"


class TLCError(Exception):
    pass


def run_tlc(module, cfg, env=None, workers=16, timeout=900, extra=(), deadlock_flag=True, heap="4g"):
    """returns dict(out=stdout text, states=generated, distinct=.., wall=..)"""
    meta = tempfile.mkdtemp(prefix="tlcmeta_")
    # a bounded heap and few GC threads: with the JVM's default (a quarter of the RAM) TLC spent
    # most of its time in the kernel zeroing fresh pages (27 s vs 5 s on the same model)
    cmd = ["java", "-XX:+UseParallelGC", "-XX:ParallelGCThreads=4", "-Xss32m", f"-Xmx{heap}", "-cp", JAR, "tlc2.TLC",
           "-workers", str(workers), "-metadir", meta, "-noGenerateSpecTE",
           "-config", cfg]
    if deadlock_flag:
        cmd.append("-deadlock")
    cmd += list(extra) + [module]
    e = dict(os.environ)
    if env:
        e.update(env)
    t0 = time.time()
    try:
        p = subprocess.run(cmd, cwd=SPEC_DIR, env=e, capture_output=True, text=True, timeout=timeout)
    except subprocess.TimeoutExpired:
        shutil.rmtree(meta, ignore_errors=True)
        raise TLCError(f"TLC timeout after {timeout}s on {module}/{cfg}")
    finally:
        shutil.rmtree(meta, ignore_errors=True)
    out = p.stdout
    res = {"out": out, "err": p.stderr, "rc": p.returncode, "wall": time.time() - t0,
           "states": 0, "distinct": 0}
    m = re.findall(r"(\d[\d,]*) states generated, (\d[\d,]*) distinct states found", out)
    if m:
        res["states"] = int(m[-1][0].replace(",", ""))
        res["distinct"] = int(m[-1][1].replace(",", ""))
    return res


def tagged_json(out, tag):
    """lines PrintT("TAG " \\o ToJson(..)) -> list of objects"""
    res = []
    pre = '"' + tag + " "
    for line in out.splitlines():
        if line.startswith(pre):
            try:
                s = json.loads(line)
                res.append(json.loads(s[len(tag) + 1:]))
            except Exception:
                pass
    return res


def validate_traces(traces, module="Trace", cfg="Trace.cfg", workers=16, timeout=900, keep=None):
    """traces: list of trace dicts.  Returns (results by tid, tlc info)."""
    d = tempfile.mkdtemp(prefix="traces_")
    path = os.path.join(d, "traces.json")
    with open(path, "w") as f:
        json.dump({"traces": traces}, f, separators=(",", ":"))
    size = os.path.getsize(path)
    try:
        r = run_tlc(module, cfg, env={"TRACE_FILE": path}, workers=workers, timeout=timeout)
    finally:
        if keep:
            shutil.copy(path, keep)
        shutil.rmtree(d, ignore_errors=True)
    results = {x["tid"]: x for x in tagged_json(r["out"], "RESULT")}
    r["size"] = size
    if len(results) != len(traces):
        lines = r["out"].splitlines()
        errs = [i for i, l in enumerate(lines) if l.startswith("Error")]
        tail = "\n".join(lines[errs[0]:errs[0] + 25] if errs else lines[-40:])
        raise TLCError(f"TLC reported {len(results)} of {len(traces)} traces\n{tail}\n{r['err'][-2000:]}")
    return results, r
