"""regenerate /verif/MANIFEST.json from the table below (keeps it valid and current)"""
import json
import os

V = "/verif"
props = [json.loads(l) for l in open(os.path.join(V, "properties.jsonl"))]
ids = [p["id"] for p in props]

TECH = "explicit TLA+ specification checked with TLC + trace validation of recorded executions against it"
NOTE = ("Trusted: TLC/SANY, CPython, the dumb projection/driver code in harness/ (no property logic). "
        "Bounds: design-level models are exhaustive only within their stated constants; conformance is "
        "a seeded sample of executions, each validated step by step by TLC; arithmetic is exact 32-bit "
        "rationals per layer, comparisons that cannot be made exactly are counted as unchecked.")

CLAIMS = {
 "C01": ("6.C01", "Every recorded append schedule is validated step by step against the spec (manager stage exact, every new reading = layer function of the stored inputs, old readings bit-identical) and the final state is compared bit for bit with a batch twin by TLC; all 26 indicator kinds x timeframes S/T/H/D x fill x schedules."),
 "C02": ("6.C02", "TLC checks on every observed step that no carried reading or closed candle changes (repaint clause) and that the state equals the prefix of a batch over a longer stream (look-ahead clause)."),
 "C03": ("6.C03", "MC_Manager: the seven-way collapse walk equals right-closed resampling under every stream over the gap alphabet and every chunking (exhaustive in the bounds); every distinct model state is replayed into CandleManager/Indicator; recorded irregular streams (S/T/H/D) are validated against both the walk and the definitional resampler."),
 "C04": ("6.C04", "Per-layer validation of SMA/EMA/RMA/WMA/VWMA/HMA readings against exact-rational layer functions (recurrence from the stored previous value, window forms), including inputs that are other indicators starting late; between-min-max clause."),
 "C05": ("6.C05", "Per-layer validation of TR/ATR/STDEV/BBANDS/KC/Donchian/HL/HLA/Supertrend/STDEVTHRES/Counter against the spec's transcription of their definitions (square roots compared through squares)."),
 "C06": ("6.C06", "Per-layer validation of RSI/MACD/ROC/STOCH/TSI/AROON/ADX/OBV/VWAP and all their helper series against the spec's definitions."),
 "C09": ("6.C09", "Degenerate streams (flat, monotone, zero volume, filled gaps): TLC checks no exception was recorded, every stored value is None/bool/finite, and no output field falls back to None once it had a value."),
 "C10": ("6.C10", "Structural relations (ranges, band order, enclosure, identities, Supertrend exclusivity, OBV/Counter steps, rounding to round_value) are TLA+ predicates evaluated by TLC on every observed state."),
 "C11": ("6.C11", "MC_Manager with Heikin-Ashi: conversion resume index, merge = recover + retag, clean values; deviation config (as-shipped resume index) must violate the invariant; all model states replayed; recorded standalone/Hexital traces from 0/1/2/n candles validated."),
 "C12": ("6.C12", "MC_Manager with fill: contiguity, inserted candles flat at previous close with volume 0, real buckets = resampling; model states replayed; recorded multi-gap streams validated against FillDef(Resample(raw))."),
 "C15": ("6.C15", "MC_Manager with lifespans: window invariant; recorded runs validated against Trim and, where the spec's look-back precondition holds at every append, readings compared bit for bit with the tail of an untrimmed twin."),
 "C18": ("6.C18", "The same scenarios are recorded in subprocesses under 7 non-UTC zones (half-hour, 45-minute, DST) and validated against the single zone-free specification (exact equality of every collapsed candle)."),
}

checks = []
for pid in ids:
    if pid not in CLAIMS:
        continue
    ref, text = CLAIMS[pid]
    checks.append({
        "property_id": pid,
        "quick_cmd": f"./check {pid} --tier quick",
        "thorough_cmd": f"./check {pid} --tier thorough",
        "evidence_file": f"/verif/evidence/{pid}.json",
        "replay_cmd_template": f"./check {pid} --replay {{path}}",
        "engine": "tla-trace",
        "level_claimed": {"category": "model_checking", "text": text, "design_ref": ref},
        "level_note": NOTE,
        "technique": TECH,
    })

na = [{"property_id": p, "reason": "check under construction in this session (specification layer not yet bound); will be claimed"}
      for p in ids if p not in CLAIMS]

m = {
 "version": 1,
 "setup_cmd": "./setup.sh",
 "hooks": {"guard": "HEXITAL_VERIF", "enable": "no hooks needed: the public API exposes the whole abstract state",
           "baseline_off_cmd": "cd /repo && /venv/bin/python -m pytest -q -p no:cacheprovider",
           "source_commits": [], "add_only": True},
 "engines": [{"name": "tla-trace", "path": "/verif/spec", "serves_properties": sorted(CLAIMS),
              "kind_free_text": "TLA+ modules Rat/Candle/Manager/Val/Indicators/Props + MC_* bounded models checked by TLC; Trace.tla validates executions recorded from /repo (harness/) and TLC-emitted model states are replayed into the code"}],
 "checks": checks,
 "not_applicable": na,
 "notes": "One entry point: ./check <ID> [--tier quick|thorough] [--replay FILE]. Exit 2 = machinery failure (never a verdict).",
}
json.dump(m, open(os.path.join(V, "MANIFEST.json"), "w"), indent=1)
print("claimed", len(checks), "not claimed", len(na))
