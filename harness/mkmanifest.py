"""regenerate /verif/MANIFEST.json from the table below (keeps it valid and current)"""
import json
import os

V = "/verif"
props = [json.loads(l) for l in open(os.path.join(V, "properties.jsonl"))]
ids = [p["id"] for p in props]

TECH = "explicit TLA+ specification checked with TLC + trace validation of recorded executions against it"
NOTE = ("Trusted: TLC/SANY, CPython, the dumb projection/driver code in harness/ (no property logic). "
        "Bounds: design-level models are exhaustive only within their stated constants; conformance is "
        "a seeded sample of executions, each validated step by step by TLC; arithmetic is exact 32-bit "
        "rationals per layer, comparisons that cannot be made exactly are counted as unchecked.")

CLAIMS = {
 "C01": ("6.C01", "Every recorded append schedule is validated step by step against the spec (manager stage exact, every new reading = layer function of the stored inputs, old readings bit-identical) and the final state is compared bit for bit with a batch twin by TLC; all 26 indicator kinds x timeframes S/T/H/D x fill x schedules.  MC_Engine checks the design exhaustively in its bounds; behaviours of the engine model (TLC simulation, 19 kinds, every call with the complete expected state) are replayed into a real Hexital and compared after every call."),
 "C02": ("6.C02", "TLC checks on every observed step that no carried reading or closed candle changes (repaint clause) and that the state equals the prefix of a batch over a longer stream (look-ahead clause)."),
 "C03": ("6.C03", "MC_Manager: the seven-way collapse walk equals right-closed resampling under every stream over the gap alphabet and every chunking (exhaustive in the bounds); every distinct model state is replayed into CandleManager/Indicator; recorded irregular streams (S/T/H/D) are validated against both the walk and the definitional resampler.  The bucket assignment of one walk step (the operator Manager.tla's Walk is built from, Buckets.tla) is additionally proved inductively for ALL integers with Apalache (label = Bucket(t), merged iff same bucket, InvalidCandleOrder unreachable on admissible input)."),
 "C04": ("6.C04", "Per-layer validation of SMA/EMA/RMA/WMA/VWMA/HMA readings against exact-rational layer functions (recurrence from the stored previous value, window forms), including inputs that are other indicators starting late; between-min-max clause."),
 "C05": ("6.C05", "Per-layer validation of TR/ATR/STDEV/BBANDS/KC/Donchian/HL/HLA/Supertrend/STDEVTHRES/Counter against the spec's transcription of their definitions (square roots compared through squares)."),
 "C06": ("6.C06", "Per-layer validation of RSI/MACD/ROC/STOCH/TSI/AROON/ADX/OBV/VWAP and all their helper series against the spec's definitions."),
 "C09": ("6.C09", "Degenerate streams (flat, monotone, zero volume, filled gaps): TLC checks no exception was recorded, every stored value is None/bool/finite, and no output field falls back to None once it had a value."),
 "C10": ("6.C10", "Structural relations (ranges, band order, enclosure, identities, Supertrend exclusivity, OBV/Counter steps, rounding to round_value) are TLA+ predicates evaluated by TLC on every observed state."),
 "C11": ("6.C11", "MC_Manager with Heikin-Ashi: conversion resume index, merge = recover + retag, clean values; deviation config (as-shipped resume index) must violate the invariant; all model states replayed; recorded standalone/Hexital traces from 0/1/2/n candles validated."),
 "C12": ("6.C12", "MC_Manager with fill: contiguity, inserted candles flat at previous close with volume 0, real buckets = resampling; model states replayed; recorded multi-gap streams validated against FillDef(Resample(raw))."),
 "C15": ("6.C15", "MC_Manager with lifespans: window invariant.  MC_Lifespan: the engine on a trimmed list -- while the property's look-back precondition (Props!SurvOK: Look(c) warmed-up survivors in front of the first new candle) has held at every append the readings equal those of the untrimmed run, for recursive, composite and windowed kinds under every chunking (exhaustive in the bounds); the as-shipped resume rule must violate it.  Recorded runs are validated against Trim and, under the same precondition, compared bit for bit with the tail of an untrimmed twin, including chunks that leave exactly the look-back."),
 "C07": ("6.C07", "A sys.monitoring recorder (no repo hook) logs, for every single-candle append after warm-up, which (series, index) readings were computed and the oldest candle read; TLC checks against the specification that only the new (or re-merged) positions were computed, each a bounded number of times, and that no candle older than the warm-up look-back was read; all kinds, timeframes and a multi-member Hexital."),
 "C08": ("6.C08", "Hexital runs (members as objects, dicts and settings dicts; mixed timeframes; Hexital-level timeframe/fill/lifespan/Heikin-Ashi; construction vs chunks) are validated step by step against the spec (manager creation from raw copies, append fan-out) and every member's column and candles are compared bit for bit by TLC with a standalone twin of the same effective configuration."),
 "C13": ("6.C13", "Pairs and triples with substring-related names and composites next to their building blocks: TLC checks that purge/recalculate/remove aimed at one member leaves the other columns bit-identical (interference clause) and that each column equals the one obtained alone and under the reversed registration order."),
 "C14": ("6.C14", "Random programs over append/calculate/purge/recalculate/calculate_index(+/-i)/add/remove are validated step by step: purge leaves exactly the state the spec's MgrPurge of the transitively owned names gives, recalculate and calculate_index reproduce the stored readings bit for bit, and the final calculate() equals a batch twin of the final registry.  MC_Engine: idempotence, reproduction and convergence to batch under every interleaving in its bounds; its simulated behaviours are replayed into a real Hexital call by call."),
 "C19": ("6.C19", "Read-only calls (str, repr, name, settings, has_reading, reading, prev_reading, as_list, reading_count, reading_period, candles_sum and the Hexital equivalents) interleaved with appends given as Candle/dict/list: TLC checks that nothing in the projected state or the object's attributes changed, that the caller's containers are unchanged, and that every timeframe received the same candle."),
 "C20": ("6.C20", "Every accessor path (Indicator.reading/prev_reading/as_list/read_candle/has_reading/reading_count, Hexital.reading/prev_reading/reading_as_list/has_reading; plain and dotted names; positive and negative indices) is compared by TLC with the spec's Reading function on the observed candles, on states holding legitimate 0/False readings."),
 "C16": ("6.C16", "Every movement and pattern function is called on generated candle lists (missing readings, late/early series, scaled and shifted copies) at every index in three ways -- positive index, negative index, default position on the truncated list -- and TLC compares each result with the specification's causal, index-consistent definition; the Amorph-wrapped functions are validated live and against a batch twin."),
 "C17": ("6.C17", "The docstring semantics (strict comparisons, inclusive extremes, most recent extreme on ties, cross = now above and before below, missing readings never true), the candle geometry and the four patterns are TLA+ operators (Analysis.tla); TLC evaluates them on the observed lists, including constructed witnesses and single-clause counter-witnesses with 2x margins and scaled/shifted copies; exact ties are accepted either way."),
 "C18": ("6.C18", "The same scenarios are recorded in subprocesses under 7 non-UTC zones (half-hour, 45-minute, DST) and validated against the single zone-free specification (exact equality of every collapsed candle)."),
}

checks = []
for pid in ids:
    if pid not in CLAIMS:
        continue
    ref, text = CLAIMS[pid]
    checks.append({
        "property_id": pid,
        "quick_cmd": f"./check {pid} --tier quick",
        "thorough_cmd": f"./check {pid} --tier thorough",
        "evidence_file": f"/verif/evidence/{pid}.json",
        "replay_cmd_template": f"./check {pid} --replay {{path}}",
        "engine": "tla-trace",
        "level_claimed": {"category": "model_checking", "text": text, "design_ref": ref},
        "level_note": NOTE,
        "technique": TECH,
    })

na = [{"property_id": p, "reason": "check under construction in this session (specification layer not yet bound); will be claimed"}
      for p in ids if p not in CLAIMS]

m = {
 "version": 1,
 "setup_cmd": "./setup.sh",
 "hooks": {"guard": "HEXITAL_VERIF", "enable": "no hooks needed: the public API exposes the whole abstract state",
           "baseline_off_cmd": "cd /repo && /venv/bin/python -m pytest -q -p no:cacheprovider",
           "source_commits": [], "add_only": True},
 "engines": [{"name": "tla-trace", "path": "/verif/spec", "serves_properties": sorted(CLAIMS),
              "kind_free_text": "TLA+ modules Rat/Buckets/Candle/Manager/Val/Analysis/Indicators/Props/Engine/Defs + MC_* bounded models checked by TLC (Apa_Walk by Apalache); Trace.tla validates executions recorded from /repo (harness/); TLC-emitted model states (manager) and simulated behaviours (engine) are replayed into the code"}],
 "checks": checks,
 "not_applicable": na,
 "notes": "One entry point: ./check <ID> [--tier quick|thorough] [--replay FILE]. Exit 2 = machinery failure (never a verdict).",
}
json.dump(m, open(os.path.join(V, "MANIFEST.json"), "w"), indent=1)
print("claimed", len(checks), "not claimed", len(na))
