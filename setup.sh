#!/bin/sh
# Offline setup: only verifies the tools the checks need are present.
set -e
command -v java >/dev/null
test -f /opt/veriftools/tla/tla2tools.jar
test -x /venv/bin/python
/venv/bin/python -c "import sys; assert sys.version_info[:2] >= (3,12)"
mkdir -p /verif/evidence /verif/replays
echo setup ok
