------------------------------- MODULE Trace -------------------------------
(***************************************************************************)
(* Trace validation: executions recorded from the real library (one record *)
(* per public call, with the full projected state as deltas) are checked   *)
(* step by step against the specification.                                 *)
(*                                                                         *)
(*  - the candle-manager stage of every call must be EXACTLY the spec's    *)
(*    MgrNew / MgrAppend applied to the observed pre-state;                *)
(*  - every reading that the call computed must be the spec's layer        *)
(*    function F applied to the OBSERVED stored inputs (Indicators.tla),   *)
(*    within the rounding the indicator is configured with;                *)
(*  - every reading that existed before must be bit-identical afterwards;  *)
(*  - the per-state predicates of the properties (finite, rounded,         *)
(*    gap-free, structural relations, batch twin equality, ...) are        *)
(*    evaluated on every observed state.                                   *)
(*                                                                         *)
(* The trace spec is TOTAL and CONTINUING: a failed clause is recorded in  *)
(* `fails` and validation continues from the observed state.  One initial  *)
(* state per trace, so TLC's workers validate traces in parallel.          *)
(***************************************************************************)
EXTENDS Props, Json, IOUtils, TLCExt, FiniteSets

JT == JsonDeserialize(IOEnv.TRACE_FILE)
Traces == JT.traces

VARIABLES tid, l, st, fails, unch, nchk,
          kc,      \* number of raw candles consumed so far
          ok15,    \* C15's look-back precondition has held at every append so far
          trimmed, \* some candle has been trimmed away so far
          notes    \* coverage notes (which conditional clauses actually applied)
tvars == <<tid, l, st, fails, unch, nchk, kc, ok15, trimmed, notes>>

\* --------------------------------------------------------------------------
\* JSON -> spec values
\* --------------------------------------------------------------------------
CJ(j) ==
  [ts |-> j.ts, o |-> j.o, h |-> j.h, l |-> j.l, c |-> j.c, v |-> j.v, tag |-> j.tag,
   cl |-> IF Len(j.cl) = 0 THEN <<>>
          ELSE <<[o |-> j.cl[1], h |-> j.cl[2], l |-> j.cl[3], c |-> j.cl[4], v |-> j.cl[5],
                  ts |-> j.cl[6][1]]>>,
   ind |-> [k |-> j.ik, v |-> j.iv], sub |-> [k |-> j.sk, v |-> j.sv]]
CJSeq(js) == [i \in 1..Len(js) |-> CJ(js[i])]

ApplyDelta(pre, dl) ==
  LET base == SubSeq(pre, dl.drop + 1, Len(pre))
  IN [i \in 1..dl.len |->
        IF \E k \in 1..Len(dl.d) : dl.d[k].i = i
        THEN CJ(dl.d[CHOOSE k \in 1..Len(dl.d) : dl.d[k].i = i].c)
        ELSE base[i]]

MCfg(m) == MkCfg(m.tf, m.fill, m.life, m.ha)
RawCopies(cs) == [i \in 1..Len(cs) |-> [Reset(Recover(cs[i])) EXCEPT !.cl = <<>>]]

\* --------------------------------------------------------------------------
\* per-call expectations
\* --------------------------------------------------------------------------
RawSlice(T, a, b) == CJSeq(SubSeq(T.raw, a, b))

\* manager stage: what each manager's candle list must be after the call, readings carried
\* over from the observed pre-state (wiped on merged / converted candles)
MidOf(T, e, j) ==
  LET cfg == MCfg(T.mg[j])
  IN CASE e.op = "new" ->
            IF T.mg[j].src = 0 THEN MgrNew(RawSlice(T, 1, e.b), cfg)
            ELSE \* a Hexital timeframe manager starts from copies of the default manager's
                 \* candles (after its own tasks) with raw values recovered, no tag, no readings
                 LET d == MgrNew(RawSlice(T, 1, e.b), MCfg(T.mg[T.mg[j].src]))
                 IN IF ~d.ok THEN d ELSE MgrNew(RawCopies(d.cs), cfg)
       [] e.op = "append" -> MgrAppend(st[j], RawSlice(T, e.a, e.b), cfg)
       [] e.op = "collapse" -> MgrTasks(st[j], cfg)     \* another pass over the same list
       [] OTHER -> [ok |-> TRUE, err |-> "", cs |-> st[j]]

\* first position at which two shell sequences differ (0 = none)
FirstDiff(a, b) ==
  IF Len(a) # Len(b) THEN -1
  ELSE IF \A i \in 1..Len(a) : a[i] = b[i] THEN 0
  ELSE CHOOSE i \in 1..Len(a) : a[i] # b[i] /\ \A k \in 1..(i - 1) : a[k] = b[k]

StoredAt(c, s) ==
  IF s.top THEN (IF KVHas(c.ind, s.name) THEN KVGet(c.ind, s.name) ELSE NoneV)
  ELSE (IF KVHas(c.sub, s.name) THEN KVGet(c.sub, s.name) ELSE NoneV)

\* which indicators the call (re)computes
Targets(T, e) ==
  {n \in 1..Len(T.ind) : e.nm = "" \/ T.ind[n].name = e.nm}

\* one series at one position: <<verdict, clause>>
SeriesCheck(s, mid, post, i) ==
  LET o == StoredAt(post[i], s)
      m == StoredAt(mid[i], s)
  IN IF m.t # "n"
     THEN IF SameV(o, m) THEN "ok" ELSE "repaint"
     ELSE LET r == MatchAny(o, F(s, post, i), s.rv, s.sl)
          IN IF r = "bad" THEN "value"
             ELSE IF r = "unchecked" THEN "unchecked"
             ELSE IF ~FiniteV(o) THEN "nonfinite"
             ELSE IF s.rv >= 0 /\ ~RoundedV(o, s.rv) THEN "round"
             ELSE "ok"

\* all findings of a calculate-type step on manager j
CalcFindings(T, e, j, mid, post) ==
  { <<r[1], j, r[2], r[3]>> :
      r \in UNION { LET ss == SeriesOf(T.ind[n])
                    IN { <<SeriesCheck(ss[q], mid, post, i), ss[q].name, i>> :
                            q \in 1..Len(ss), i \in 1..Len(post) }
                  : n \in {n \in Targets(T, e) : T.ind[n].mg = j} } }

\* state predicates evaluated on every observed state (C09 gaps, C10 structure)
StateFindings(T, j, post) ==
  { <<r[1], j, r[2], r[3]>> :
      r \in UNION { LET c == T.ind[n]
                    IN { <<TopCheck(c, post, i), c.name, i>> : i \in 1..Len(post) }
                  : n \in {n \in 1..Len(T.ind) : T.ind[n].mg = j} } }

\* twins: a second observation of the same configuration obtained by calling the library
\* differently (batch, longer batch, untrimmed, standalone).  A twin record is
\*   [j, mode, skip, names, clause, cs]
\* mode "full"   : same length, every candle compared
\*      "prefix" : the first Len(post) - skip candles compared with the same positions
\*      "tail"   : post compared with the last Len(post) candles of the twin
\* names = <<>>  : both reading dictionaries compared; otherwise only the listed top-level names
KVSame(a, b) ==
  /\ {a.k[q] : q \in 1..Len(a.k)} = {b.k[q] : q \in 1..Len(b.k)}
  /\ \A q \in 1..Len(a.k) : SameV(a.v[q], KVGet(b, a.k[q]))
NameSame(a, b, nm) ==
  /\ KVHas(a, nm) = KVHas(b, nm)
  /\ (KVHas(a, nm) => SameV(KVGet(a, nm), KVGet(b, nm)))
TwinFindings(tw, post) ==
  LET a   == post[tw.j]
      b   == CJSeq(tw.cs)
      n   == IF tw.mode = "prefix" THEN MaxI(0, Len(a) - tw.skip) ELSE Len(a)
      off == IF tw.mode = "tail" THEN Len(b) - Len(a) ELSE 0
      cl  == tw.clause
  IN IF (tw.mode = "full" /\ Len(a) # Len(b)) \/ (tw.mode # "full" /\ Len(b) < n + off) \/ off < 0
     THEN {<<cl \o "_len", tw.j, "", Len(b)>>}
     ELSE { <<cl \o "_candle", tw.j, "", i>> : i \in {i \in 1..n : Shell(a[i]) # Shell(b[off + i])} }
          \cup (IF Len(tw.names) = 0
                THEN { <<cl \o "_ind", tw.j, "", i>> : i \in {i \in 1..n : ~KVSame(a[i].ind, b[off + i].ind)} }
                     \cup { <<cl \o "_sub", tw.j, "", i>> : i \in {i \in 1..n : ~KVSame(a[i].sub, b[off + i].sub)} }
                ELSE { <<cl \o "_ind", tw.j, tw.names[q], i>> :
                          q \in 1..Len(tw.names),
                          i \in {i \in 1..n : \E q2 \in 1..Len(tw.names) :
                                    ~NameSame(a[i].ind, b[off + i].ind, tw.names[q2])} })

\* definitional clause (C03 / C11 / C12 / C15 window): what the manager shows is the
\* right-closed resampling (+ fill, + Heikin-Ashi, + window) of the raw stream consumed so far
DefApplies(T, j) ==
  LET m == T.mg[j]
  IN /\ ~(m.fill /\ m.ha) /\ ~(m.ha /\ m.life >= 0)
     /\ (m.src = 0 \/ (T.mg[m.src].tf = 0 /\ ~T.mg[m.src].ha /\ T.mg[m.src].life < 0))
DefFindings(T, j, k, postj) ==
  IF ~DefApplies(T, j) \/ k = 0 THEN {}
  ELSE LET cfg == MCfg(T.mg[j])
           raw == RawSlice(T, 1, k)
       IN (IF CoreSeq(postj) = ShownDef(raw, cfg) THEN {<<"ok", j, "def", 0>>}
           ELSE {<<"def_shown", j, "", Len(postj)>>})
          \cup (IF cfg.ha /\ [i \in 1..Len(postj) |-> CleanCore(postj[i])] # CleanDef(raw, cfg)
                THEN {<<"def_clean", j, "", Len(postj)>>} ELSE {})
          \cup (IF cfg.ha /\ \E i \in 1..Len(postj) : postj[i].tag # HAName
                THEN {<<"def_tag", j, "", Len(postj)>>} ELSE {})

\* C15 look-back precondition at one append: once something has been trimmed, every candle
\* whose readings are (re)computed must still have Warm(c) predecessors
LookbackOK(T, e, post) ==
  \A j \in 1..Len(T.mg) :
     (T.mg[j].life >= 0 /\ (e.m[j].drop > 0 \/ trimmed)) =>
        \A n \in {n \in 1..Len(T.ind) : T.ind[n].mg = j} :
           \A q \in 1..Len(e.m[j].d) : e.m[j].d[q].i - 1 >= Warm(T.ind[n])

StepFindings(T, e, post) ==
  UNION { LET mid == MidOf(T, e, j)
              sd  == IF mid.ok THEN FirstDiff(ShellSeq(mid.cs), ShellSeq(post[j])) ELSE -2
              \* with a lifespan, readings are only specified while the look-back they need
              \* has survived every trim (C15's precondition)
              rd  == T.mg[j].life < 0 \/ (ok15 /\ LookbackOK(T, e, post))
          IN IF e.exc # "" THEN {<<"exc", j, e.exc, 0>>}
             ELSE IF ~mid.ok THEN {<<"stage_err", j, mid.err, 0>>}
             ELSE IF sd # 0 THEN {<<"stage", j, "", sd>>}
             ELSE (IF ~rd THEN {}
                   ELSE (IF e.op \in {"append", "calculate"}
                         THEN CalcFindings(T, e, j, mid.cs, post[j]) ELSE {})
                        \cup StateFindings(T, j, post[j]))
                  \cup DefFindings(T, j, IF e.op \in {"new", "append"} THEN e.b ELSE kc, post[j])
        : j \in 1..Len(T.mg) }
  \cup UNION { IF e.bt[q].clause = "untrimmed" /\ ~(ok15 /\ LookbackOK(T, e, post))
              THEN {<<"ok", e.bt[q].j, "untrimmed_skipped", 0>>}
              ELSE TwinFindings(e.bt[q], post)
                   \cup (IF e.bt[q].clause = "untrimmed" THEN {<<"ok", e.bt[q].j, "untrimmed_compared", 0>>} ELSE {})
            : q \in 1..Len(e.bt) }

\* the trace behaviour
\* --------------------------------------------------------------------------
Init ==
  /\ tid \in 1..Len(Traces)
  /\ l = 1
  /\ st = [j \in 1..Len(Traces[tid].mg) |-> <<>>]
  /\ fails = <<>>
  /\ unch = 0
  /\ nchk = 0
  /\ kc = 0
  /\ ok15 = TRUE
  /\ trimmed = FALSE
  /\ notes = <<>>

MaxFails == 6
NoteNames == {"untrimmed_skipped", "untrimmed_compared", "def"}
\* TRACE_DEBUG=1 lists unchecked comparisons among the failures (diagnosis only)
DebugUnch == "TRACE_DEBUG" \in DOMAIN IOEnv
RECURSIVE SetAsSeq(_)
SetAsSeq(S) == IF S = {} THEN <<>> ELSE LET x == CHOOSE y \in S : TRUE IN <<x>> \o SetAsSeq(S \ {x})

Step ==
  /\ l <= Len(Traces[tid].ev)
  /\ LET T    == Traces[tid]
         e    == T.ev[l]
         post == [j \in 1..Len(T.mg) |-> ApplyDelta(st[j], e.m[j])]
         fs   == StepFindings(T, e, post)
         bad  == {f \in fs : f[1] \notin (IF DebugUnch THEN {"ok"} ELSE {"ok", "unchecked"})}
         bseq == SetAsSeq(bad)
     IN /\ fails' = IF Len(fails) >= MaxFails THEN fails
                    ELSE fails \o [q \in 1..MinI(Len(bseq), MaxFails - Len(fails)) |-> <<l>> \o bseq[q]]
        /\ unch' = unch + Cardinality({f \in fs : f[1] = "unchecked"})
        /\ nchk' = nchk + Cardinality({f \in fs : f[1] = "ok"})
        /\ st' = post
        /\ kc' = IF e.op \in {"new", "append"} THEN e.b ELSE kc
        /\ ok15' = (ok15 /\ (e.op \in {"append", "calculate"} => LookbackOK(T, e, post)))
        /\ trimmed' = (trimmed \/ \E j \in 1..Len(T.mg) :
                            \/ e.m[j].drop > 0
                            \/ (e.op = "new" /\ T.mg[j].life >= 0 /\ DefApplies(T, j)
                                /\ Len(post[j]) < Len(ShownDef(RawSlice(T, 1, e.b),
                                                               [MCfg(T.mg[j]) EXCEPT !.life = -1])))
                            \/ (e.op = "new" /\ T.mg[j].life >= 0 /\ ~DefApplies(T, j)))
        /\ notes' = notes \o SetAsSeq({f[3] : f \in {g \in fs : g[1] = "ok" /\ g[4] = 0 /\ g[3] \in NoteNames}})
        /\ l' = l + 1
        /\ tid' = tid

Next == Step
Spec == Init /\ [][Next]_tvars

\* one line per finished trace (single-line PrintT so that 16 workers do not interleave)
Report ==
  (l > Len(Traces[tid].ev)) =>
     PrintT("RESULT " \o ToJson([tid |-> tid, id |-> Traces[tid].id, nf |-> Len(fails),
                                 unch |-> unch, nchk |-> nchk, fails |-> fails, notes |-> notes]))
=============================================================================
