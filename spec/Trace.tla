------------------------------- MODULE Trace -------------------------------
(***************************************************************************)
(* Trace validation: executions recorded from the real library (one record *)
(* per public call, with the full projected state as deltas) are checked   *)
(* step by step against the specification.                                 *)
(*                                                                         *)
(*  - the candle-manager stage of every call must be EXACTLY the spec's    *)
(*    MgrNew / MgrAppend / MgrPurge applied to the observed pre-state;     *)
(*  - every reading that the call computed must be the spec's layer        *)
(*    function F applied to the OBSERVED stored inputs (Indicators.tla),   *)
(*    within the rounding the indicator is configured with;                *)
(*  - every reading that existed before must be bit-identical afterwards;  *)
(*  - maintenance calls (purge / recalculate / calculate_index / add /     *)
(*    remove) must have exactly the effect the spec gives them;            *)
(*  - read-only calls must leave everything unchanged and return what the  *)
(*    spec's Reading function returns on the observed state;               *)
(*  - the per-state predicates of the properties (finite, rounded,         *)
(*    gap-free, structural relations, twin equalities, work bounds) are    *)
(*    evaluated on every observed state.                                   *)
(*                                                                         *)
(* The trace spec is TOTAL and CONTINUING: a failed clause is recorded in  *)
(* `fails` and validation continues from the observed state.  One initial  *)
(* state per trace, so TLC's workers validate traces in parallel.          *)
(***************************************************************************)
EXTENDS Props, Json, IOUtils, TLCExt, FiniteSets

JT == JsonDeserialize(IOEnv.TRACE_FILE)
Traces == JT.traces

VARIABLES tid, l, st, fails, unch, nchk,
          acc,     \* what the last call added to the report (see Digest)
          kc,      \* number of raw candles consumed so far
          ok15,    \* C15's look-back precondition has held at every append so far
          trimmed, \* some candle has been trimmed away so far
          notes,   \* coverage notes (which conditional clauses actually applied)
          reg,     \* indices (into the trace's indicator list) of the registered indicators
          mgs,     \* indices of the candle managers that exist
          ob       \* last observed scalars of the object under test (attribute names, active index)
tvars == <<tid, l, st, fails, unch, nchk, acc, kc, ok15, trimmed, notes, reg, mgs, ob>>

\* --------------------------------------------------------------------------
\* JSON -> spec values
\* --------------------------------------------------------------------------
CJ(j) ==
  [ts |-> j.ts, o |-> j.o, h |-> j.h, l |-> j.l, c |-> j.c, v |-> j.v, tag |-> j.tag,
   cl |-> IF Len(j.cl) = 0 THEN <<>>
          ELSE <<[o |-> j.cl[1], h |-> j.cl[2], l |-> j.cl[3], c |-> j.cl[4], v |-> j.cl[5],
                  ts |-> j.cl[6][1]]>>,
   ind |-> [k |-> j.ik, v |-> j.iv], sub |-> [k |-> j.sk, v |-> j.sv], x |-> j.x]
CJSeq(js) == [i \in 1..Len(js) |-> CJ(js[i])]

ApplyDelta(pre, dl) ==
  LET base == SubSeq(pre, dl.drop + 1, Len(pre))
  IN [i \in 1..dl.len |->
        IF \E k \in 1..Len(dl.d) : dl.d[k].i = i
        THEN CJ(dl.d[CHOOSE k \in 1..Len(dl.d) : dl.d[k].i = i].c)
        ELSE base[i]]

MCfg(m) == MkCfg(m.tf, m.fill, m.life, m.ha)
RawSlice(T, a, b) == CJSeq(SubSeq(T.raw, a, b))

RECURSIVE SetAsSeq(_)
SetAsSeq(S) == IF S = {} THEN <<>> ELSE LET x == CHOOSE y \in S : TRUE IN <<x>> \o SetAsSeq(S \ {x})

MaxFails == 24
MaxKeys == 24
NoteNames == {"expected_exc", "untrimmed_skipped", "untrimmed_compared", "def", "reads", "work", "purge_exact",
              "reindex", "recalc_same", "noninterference", "args"}
\* TRACE_DEBUG=1 lists unchecked comparisons among the failures (diagnosis only)
DebugUnch == "TRACE_DEBUG" \in DOMAIN IOEnv

\* --------------------------------------------------------------------------
\* registry: which indicators and managers exist after the call
\* --------------------------------------------------------------------------
ByName(T, nm) == {n \in 1..Len(T.ind) : T.ind[n].name = nm}
Initial(T) == {n \in 1..Len(T.ind) : T.ind[n].act = 1}
\* the configuration an add_indicator call registers: given by its number (two configurations may share a
\* generated name: the name does not carry every setting), else by name
Added(T, e) == IF e.idx >= 1 /\ e.idx <= Len(T.ind) THEN {e.idx} ELSE ByName(T, e.nm)
RegAfter(T, e) ==
  CASE e.op = "new" -> Initial(T)
    [] e.op = "add" -> reg \cup Added(T, e)
    [] e.op = "remove" -> reg \ ByName(T, e.nm)
    \* settings the name does not carry were changed on the live object, then it was recalculated
    \* ("ideal for changing an indicator parameters midway"): from here on it is configuration e.idx
    [] e.op = "reconf" -> (reg \ ByName(T, e.nm)) \cup {e.idx}
    [] OTHER -> reg
MgsAfter(T, e) ==
  CASE e.op = "new" -> {1} \cup {T.ind[n].mg : n \in Initial(T)}
    [] e.op = "add" -> mgs \cup {T.ind[n].mg : n \in Added(T, e)}
    [] OTHER -> mgs

\* which registered indicators the call is aimed at ("" = all of them)
Targets(T, e) == {n \in reg : e.nm = "" \/ T.ind[n].name = e.nm}
NamesOn(T, ns, j) == UNION {OwnedNames(T.ind[n]) : n \in {n \in ns : T.ind[n].mg = j}}

\* --------------------------------------------------------------------------
\* manager stage: what each manager's candle list must be after the call, readings carried
\* over from the observed pre-state (wiped on merged / converted candles, removed by purge)
\* --------------------------------------------------------------------------
OkCs(cs) == [ok |-> TRUE, err |-> "", cs |-> cs]
MidOf(T, e, j) ==
  LET cfg == MCfg(T.mg[j])
  IN IF j \notin MgsAfter(T, e) THEN OkCs(<<>>)
     ELSE CASE e.op = "new" ->
            \* every manager that exists from construction on -- the default one and those of members
            \* with a timeframe of their own -- starts from the candles as they were given
            MgrNew(RawSlice(T, 1, e.b), cfg)
       [] e.op = "add" ->
            IF j \in mgs THEN OkCs(st[j]) ELSE MgrNew(RawCopies(st[T.mg[j].src]), cfg)
       [] e.op = "append" -> MgrAppend(st[j], RawSlice(T, e.a, e.b), cfg)
       [] e.op = "collapse" -> MgrTasks(st[j], cfg)     \* another pass over the same list
       \* calculate_index(start, end of list): every reading of the targets from `start` on is computed
       \* anew -- the stage is the list with those readings taken out
       [] e.op = "calculate_range" ->
            LET pos == IF e.idx < 0 THEN Len(st[j]) + e.idx + 1 ELSE e.idx + 1     \* Python index -> position
                nms == NamesOn(T, Targets(T, e), j)
            IN OkCs([i \in 1..Len(st[j]) |->
                      IF i >= pos THEN [st[j][i] EXCEPT !.ind = KVRemove(st[j][i].ind, nms),
                                                        !.sub = KVRemove(st[j][i].sub, nms)]
                      ELSE st[j][i]])
       [] e.op \in {"purge", "recalculate", "remove", "reconf"} ->
            OkCs(MgrPurge(st[j], NamesOn(T, Targets(T, e), j)))
       [] OTHER -> OkCs(st[j])

\* first position at which two shell sequences differ (0 = none)
FirstDiff(a, b) ==
  IF Len(a) # Len(b) THEN -1
  ELSE IF \A i \in 1..Len(a) : a[i] = b[i] THEN 0
  ELSE CHOOSE i \in 1..Len(a) : a[i] # b[i] /\ \A k \in 1..(i - 1) : a[k] = b[k]

StoredAt(c, s) ==
  IF s.top THEN (IF KVHas(c.ind, s.name) THEN KVGet(c.ind, s.name) ELSE NoneV)
  ELSE (IF KVHas(c.sub, s.name) THEN KVGet(c.sub, s.name) ELSE NoneV)

KVSame(a, b) ==
  /\ {a.k[q] : q \in 1..Len(a.k)} = {b.k[q] : q \in 1..Len(b.k)}
  /\ \A q \in 1..Len(a.k) : SameV(a.v[q], KVGet(b, a.k[q]))
NameSame(a, b, nm) ==
  /\ KVHas(a, nm) = KVHas(b, nm)
  /\ (KVHas(a, nm) => SameV(KVGet(a, nm), KVGet(b, nm)))

KVSeqSame(a, b) ==
  Len(a) = Len(b) /\ \A i \in 1..Len(a) : KVSame(a[i].ind, b[i].ind) /\ KVSame(a[i].sub, b[i].sub)

\* one series at one position
SeriesCheck(s, mid, post, i) ==
  LET o == StoredAt(post[i], s)
      m == StoredAt(mid[i], s)
      had == IF s.top THEN KVHas(mid[i].ind, s.name) ELSE KVHas(mid[i].sub, s.name)
  IN IF m.t # "n"
     THEN IF SameV(o, m) THEN "ok" ELSE "repaint"
     \* a reading that was already stored as None (computed, nothing to show) stays None
     ELSE IF had /\ o.t # "n" THEN "repaint_none"
     ELSE LET r == MatchAny(o, F(s, post, i), s.rv, s.sl)
          IN IF r = "bad" THEN "value"
             ELSE IF r = "unchecked" THEN "unchecked"
             ELSE IF ~FiniteV(o) THEN "nonfinite"
             ELSE IF s.rv >= 0 /\ ~RoundedV(o, s.rv) THEN "round"
             ELSE "ok"

\* all findings of a calculate-type step on manager j for the indicators ns
CalcFindings(T, ns, j, mid, post) ==
  { <<r[1], j, r[2], r[3]>> :
      r \in UNION { LET ss == SeriesOf(T.ind[n])
                    IN { <<SeriesCheck(ss[q], mid, post, i), ss[q].name, i>> :
                            q \in 1..Len(ss), i \in 1..Len(post) }
                  : n \in {n \in ns : T.ind[n].mg = j} } }

\* calculate_index: the series of the targets at one position are recomputed; they must
\* match their layer function and reproduce what was there; nothing else may change
\* fresh = the candle was updated in place by the caller before the call: the recomputed readings
\* follow the new values (nothing to reproduce)
ReindexFindingsF(T, ns, j, pre, post, pos, fresh) ==
  IF {n \in ns : T.ind[n].mg = j} = {}
  THEN (IF KVSeqSame(pre, post) THEN {} ELSE {<<"reindex_elsewhere", j, "", 0>>})
  ELSE IF pos < 1 \/ pos > Len(post) \/ Len(pre) # Len(post) THEN {<<"reindex_range", j, "", pos>>}
  ELSE { <<r[1], j, r[2], pos>> :
           r \in UNION { LET ss == SeriesOf(T.ind[n])
                         IN { LET s == ss[q]
                                  o == StoredAt(post[pos], s)
                                  m == MatchAny(o, F(s, post, pos), s.rv, s.sl)
                              IN <<IF m = "bad" THEN "value"
                                   ELSE IF s.rv >= 0 /\ ~RoundedV(o, s.rv) THEN "round"
                                   ELSE IF ~fresh /\ ~SameV(o, StoredAt(pre[pos], s)) THEN "reindex_differs"
                                   ELSE IF m = "unchecked" THEN "unchecked" ELSE "ok", s.name>>
                              : q \in 1..Len(ss) }
                       : n \in {n \in ns : T.ind[n].mg = j} } }
       \cup { <<"reindex_elsewhere", j, "", i>> :
                i \in {i \in 1..Len(post) : i # pos /\ (~KVSame(pre[i].ind, post[i].ind)
                                                        \/ ~KVSame(pre[i].sub, post[i].sub))} }
       \cup {<<"ok", j, "reindex", 0>>}

ReindexFindings(T, ns, j, pre, post, pos) == ReindexFindingsF(T, ns, j, pre, post, pos, FALSE)

\* the exact state a purge-type call must leave (C14), and the columns of the indicators it
\* was not aimed at (C13)
PurgeFindings(T, e, j, mid, post) ==
  { <<"purge_state", j, "", i>> :
       i \in {i \in 1..Len(post) : ~KVSame(mid[i].ind, post[i].ind) \/ ~KVSame(mid[i].sub, post[i].sub)} }
  \cup {<<"ok", j, "purge_exact", 0>>}

OthersFindings(T, e, j, pre, post) ==
  IF Len(pre) # Len(post) THEN {}
  ELSE { <<"interfere", j, T.ind[n].name, i>> :
           n \in {n \in RegAfter(T, e) \ Targets(T, e) : T.ind[n].mg = j},
           i \in {i \in 1..Len(post) : \E n2 \in RegAfter(T, e) \ Targets(T, e) :
                     T.ind[n2].mg = j /\ ~NameSame(pre[i].ind, post[i].ind, T.ind[n2].name)} }
       \cup {<<"ok", j, "noninterference", 0>>}

\* recalculate reproduces exactly the readings it replaced
RecalcSame(T, e, j, pre, post) ==
  IF Len(pre) # Len(post) THEN {}
  ELSE { <<"recalc_differs", j, T.ind[n].name, i>> :
           n \in {n \in Targets(T, e) : T.ind[n].mg = j},
           i \in {i \in 1..Len(post) : \E n2 \in Targets(T, e) :
                     T.ind[n2].mg = j /\ KVHas(pre[i].ind, T.ind[n2].name)
                     /\ ~NameSame(pre[i].ind, post[i].ind, T.ind[n2].name)} }
       \cup {<<"ok", j, "recalc_same", 0>>}

\* state predicates evaluated on every observed state (C09 gaps, C10 structure), and: a candle
\* of one manager carries only the readings of the indicators registered on that manager --
\* candles are not shared between timeframes (C19, C13, C08)
StateFindings(T, ns, j, post) ==
  { <<r[1], j, r[2], r[3]>> :
      r \in UNION { LET c == T.ind[n]
                    IN { <<TopCheck(c, post, i), c.name, i>> : i \in 1..Len(post) }
                  : n \in {n \in ns : T.ind[n].mg = j} } }
  \cup (IF Len(T.ind) = 0 THEN {}
        ELSE LET tops == {T.ind[n].name : n \in {n \in ns : T.ind[n].mg = j}}
                 owned == NamesOn(T, ns, j)
             IN { <<"foreign_key", j, post[pr[1]].ind.k[pr[2]], pr[1]>> :
                     pr \in {pr \in (1..Len(post)) \X (1..MaxKeys) :
                               pr[2] <= Len(post[pr[1]].ind.k) /\ post[pr[1]].ind.k[pr[2]] \notin tops} }
                \cup { <<"foreign_key", j, post[pr[1]].sub.k[pr[2]], pr[1]>> :
                     pr \in {pr \in (1..Len(post)) \X (1..MaxKeys) :
                               pr[2] <= Len(post[pr[1]].sub.k) /\ post[pr[1]].sub.k[pr[2]] \notin owned} })

\* --------------------------------------------------------------------------
\* twins: a second observation of the same configuration obtained by calling the library
\* differently (batch, longer batch, untrimmed, standalone, alone, other order).  A twin is
\*   [j, mode, skip, names, clause, cs]
\* mode "full"   : same length, every candle compared
\*      "prefix" : the first Len(post) - skip candles compared with the same positions
\*      "tail"   : post compared with the last Len(post) candles of the twin
\* names = <<>>  : both reading dictionaries compared; otherwise only the listed top-level names
\* --------------------------------------------------------------------------
TwinFindings(tw, post) ==
  LET a   == post[tw.j]
      b   == CJSeq(tw.cs)
      n   == IF tw.mode = "prefix" THEN MaxI(0, Len(a) - tw.skip) ELSE Len(a)
      off == IF tw.mode = "tail" THEN Len(b) - Len(a) ELSE 0
      cl  == tw.clause
  IN IF tw.mode = "align"
     \*      "align": candles of post and of the twin that carry the same timestamp are the same candles
     \*      (all but the forming bucket); readings are not compared (under a lifespan they may differ)
     THEN { <<cl \o "_candle", tw.j, "", i>> :
              i \in {i \in 1..MaxI(0, Len(a) - tw.skip) :
                       \E k2 \in 1..Len(b) : b[k2].ts = a[i].ts /\ Shell(a[i]) # Shell(b[k2])} }
     ELSE IF (tw.mode = "full" /\ Len(a) # Len(b)) \/ (tw.mode # "full" /\ Len(b) < n + off) \/ off < 0
     THEN {<<cl \o "_len", tw.j, "", Len(b)>>}
     ELSE { <<cl \o "_candle", tw.j, "", i>> : i \in {i \in 1..n : Shell(a[i]) # Shell(b[off + i])} }
          \cup (IF Len(tw.names) = 0
                THEN { <<cl \o "_ind", tw.j, "", i>> : i \in {i \in 1..n : ~KVSame(a[i].ind, b[off + i].ind)} }
                     \cup { <<cl \o "_sub", tw.j, "", i>> : i \in {i \in 1..n : ~KVSame(a[i].sub, b[off + i].sub)} }
                ELSE { <<cl \o "_ind", tw.j, tw.names[q], i>> :
                          q \in 1..Len(tw.names),
                          i \in {i \in 1..n : \E q2 \in 1..Len(tw.names) :
                                    ~NameSame(a[i].ind, b[off + i].ind, tw.names[q2])} })

\* --------------------------------------------------------------------------
\* definitional clause (C03 / C11 / C12 / C15 window): what the manager shows is the
\* right-closed resampling (+ fill, + Heikin-Ashi, + window) of the raw stream consumed so far
\* --------------------------------------------------------------------------
DefApplies(T, j) ==
  LET m == T.mg[j]
  IN /\ ~(m.fill /\ m.ha) /\ ~(m.ha /\ m.life >= 0 /\ m.tf # 0)
     \* a manager created later starts from what the default one still holds: that is the whole raw
     \* stream only while the default manager neither collapses, converts nor trims
     /\ (m.late = 0 \/ (m.src # 0 /\ T.mg[m.src].tf = 0 /\ ~T.mg[m.src].ha /\ T.mg[m.src].life < 0))
DefFindings(T, j, k, postj) ==
  IF ~DefApplies(T, j) \/ k = 0 THEN {}
  ELSE LET cfg == MCfg(T.mg[j])
           raw == RawSlice(T, 1, k)
       IN (IF CoreSeq(postj) = ShownDef(raw, cfg) THEN {<<"ok", j, "def", 0>>}
           ELSE {<<"def_shown", j, "", Len(postj)>>})
          \cup (IF cfg.ha /\ [i \in 1..Len(postj) |-> CleanCore(postj[i])] # CleanDef(raw, cfg)
                THEN {<<"def_clean", j, "", Len(postj)>>} ELSE {})
          \cup (IF cfg.ha /\ \E i \in 1..Len(postj) : postj[i].tag # HAName
                THEN {<<"def_tag", j, "", Len(postj)>>} ELSE {})

\* C15 look-back precondition at one call: once something has been trimmed, every candle
\* whose readings are (re)computed must still have Warm(c) predecessors
\* did this call trim anything on manager j?  Decided by the specification itself (candles can be
\* appended and trimmed within one call without ever showing up in an observed state)
TrimNow(T, e, j) ==
  /\ T.mg[j].life >= 0 /\ e.op \in {"new", "append"} /\ (e.op = "append" => j \in mgs)
  /\ T.mg[j].src = 0 \/ e.op = "append"
  /\ LET nolife == [MCfg(T.mg[j]) EXCEPT !.life = -1]
         full == IF e.op = "new" THEN MgrNew(RawSlice(T, 1, e.b), nolife)
                 ELSE MgrAppend(st[j], RawSlice(T, e.a, e.b), nolife)
     IN full.ok /\ Len(full.cs) > e.m[j].len

\* the property's own wording (Engine!SurvOK): Look(c) survivors in front of the first new candle,
\* the last of them warmed up
SurvivorsOK(T, e, post, j, n) ==
  LET mid == MidOf(T, e, j) IN mid.ok /\ SurvOK(T.ind[n], st[j], mid.cs, e.m[j].drop)

LookbackOK(T, e, post) ==
  \A j \in 1..Len(T.mg) :
     (T.mg[j].life >= 0 /\ (e.m[j].drop > 0 \/ trimmed \/ TrimNow(T, e, j))) =>
        \A n \in {n \in 1..Len(T.ind) : T.ind[n].mg = j} :
           \/ \A q \in 1..Len(e.m[j].d) : e.m[j].d[q].i - 1 >= Warm(T.ind[n])
           \/ (e.op = "append" /\ j \in mgs /\ n \in reg /\ SurvivorsOK(T, e, post, j, n))

\* --------------------------------------------------------------------------
\* read-only calls (C19, C20): the spec's Reading function on the observed state
\* --------------------------------------------------------------------------
ListV(vs) == [t |-> "l", v |-> vs]
IntV(n) == [t |-> "q", n |-> n, d |-> 1]
PyIdx(n, i) == IF i < 0 THEN n + i + 1 ELSE i + 1          \* Python index -> 1-based position
ValidIdx(n, i) == i < n /\ i >= -n

RECURSIVE TrailCount(_, _, _)
TrailCount(cs, r, i) == IF i < 1 \/ GetRef(cs[i], r).t = "n" THEN 0 ELSE 1 + TrailCount(cs, r, i - 1)

\* Hexital.reading: default manager first, then every manager in order, first non-None wins
RECURSIVE HexReading(_, _, _, _)
HexReading(ms, js, r, i) ==
  IF js = <<>> THEN NoneV
  ELSE LET cs == ms[Head(js)]
           v  == IF ValidIdx(Len(cs), i) THEN GetRef(cs[PyIdx(Len(cs), i)], r) ELSE NoneV
       IN IF v.t # "n" THEN v ELSE HexReading(ms, Tail(js), r, i)

Expected(T, ms, q) ==
  LET cs == IF q.j >= 1 THEN ms[q.j] ELSE <<>>
      n  == Len(cs)
      ai == q.ai
      js == SetAsSeq({1}) \o [k \in 1..Cardinality(mgs) |-> CHOOSE x \in mgs :
                                  Cardinality({y \in mgs : y < x}) = k - 1]
  \* no index = the latest candle, "previous" = the one before it (C20: every way of asking agrees
  \* with Hexital.reading / prev_reading and with the candle itself).  The library keeps an internal
  \* cursor for this; the observed cursor q.ai is NOT consulted: a cursor left on an older candle
  \* after a maintenance call is a finding.
  IN CASE q.w = "ind.reading" ->
            \* (an index outside the list reads None: utils/indexing.absindex)
            IF q.i = 999999 THEN (IF n = 0 THEN NoneV ELSE GetRef(cs[n], q.n))
            ELSE IF ValidIdx(n, q.i) THEN GetRef(cs[PyIdx(n, q.i)], q.n) ELSE NoneV
       [] q.w = "ind.read_candle" -> IF ValidIdx(n, q.i) THEN GetRef(cs[PyIdx(n, q.i)], q.n) ELSE NoneV
       [] q.w = "ind.prev_reading" -> IF n <= 1 THEN NoneV ELSE GetRef(cs[n - 1], q.n)
       [] q.w = "ind.as_list" -> ListV([i \in 1..n |-> GetRef(cs[i], q.n)])
       [] q.w = "ind.has_reading" ->
            IF n = 0 THEN BoolV(FALSE) ELSE BoolV(GetRef(cs[n], q.n).t # "n")
       [] q.w = "ind.reading_count" -> IntV(TrailCount(cs, q.n, n))
       [] q.w = "hex.reading" -> HexReading(ms, js, q.n, q.i)
       [] q.w = "hex.prev_reading" -> HexReading(ms, js, q.n, -2)
       [] q.w = "hex.has_reading" -> BoolV(HexReading(ms, js, q.n, -1).t # "n")
       [] q.w = "hex.candles" ->      \* Hexital.candles(timeframe): that manager's list, else the default
            ListV([i \in 1..Len(ms[MaxI(q.j, 1)]) |-> IntV(ms[MaxI(q.j, 1)][i].ts)])
       [] q.w = "hex.timeframes" -> IntV(Cardinality({T.mg[x].tf : x \in mgs}))   \* distinct timeframes
       [] q.w = "hex.reading_as_list" ->
            IF q.j = 0 THEN ListV(<<>>) ELSE ListV([i \in 1..n |-> GetRef(cs[i], q.n)])
       [] OTHER -> [t |-> "skip"]

RECURSIVE SameR(_, _)
SameR(a, b) ==
  IF b.t = "skip" THEN TRUE
  ELSE IF a.t # b.t THEN FALSE
  ELSE IF a.t = "l" THEN Len(a.v) = Len(b.v) /\ \A i \in 1..Len(a.v) : SameR(a.v[i], b.v[i])
  ELSE IF a.t = "q" /\ ~IsObs(b) THEN a.n = b.n /\ a.d = b.d
  ELSE SameV(a, b)

\* analysis functions called directly on a candle list (C16, C17): the observed result must be
\* one of the results the specification allows for that candle
AnalysisVerdict(post, q) ==
  LET alts == Eval(post[q.j], [fn |-> q.fn, a |-> q.a, b |-> q.b, len |-> q.len, i |-> q.i])
  IN IF \E k \in 1..Len(alts) : alts[k].t = "nar" THEN "unchecked"
     ELSE IF \E k \in 1..Len(alts) : SameR(q.r, alts[k]) THEN "ok"
     ELSE "an_" \o q.var \o "_" \o q.fn

\* a candle's own shape (C17): |open-close|, high-max(open,close), min(open,close)-low, high-low
GeoVerdict(post, q) ==
  LET g == Geometry(post[q.j][q.i + 1])
      \* a float result that is the exact rational is compared exactly; one that carries float noise
      \* (0.5297 - 0.5298) within 2e-6 on the observed side
      num(f, x) == LET v == DictField(q.r, f)
                   IN IF v.t # "q" THEN "bad"
                      ELSE IF v.x = 1 THEN (IF <<v.n, v.d>> = x THEN "ok" ELSE "bad")
                      ELSE WithinQ(v, x, 6, 0)
      boo(f, x) == LET v == DictField(q.r, f) IN IF v.t = "b" /\ v.b = x THEN "ok" ELSE "bad"
      rs == {num("body", g.body), num("upper", g.upper), num("lower", g.lower), num("range", g.range),
             boo("pos", g.pos), boo("neg", g.neg)}
  IN IF post[q.j][q.i + 1].x = 0 THEN "unchecked"      \* candle values not exactly recoverable
     ELSE IF q.r.t # "d" \/ "bad" \in rs THEN "geo_shape"
     ELSE IF "unchecked" \in rs THEN "unchecked"
     ELSE "ok"

ReadFindings(T, e, post) ==
  { <<IF e.rd[q].w = "an" THEN AnalysisVerdict(post, e.rd[q])
      ELSE IF e.rd[q].w = "geo" THEN GeoVerdict(post, e.rd[q])
      ELSE IF SameR(e.rd[q].r, Expected(T, post, e.rd[q])) THEN "ok" ELSE "read_" \o e.rd[q].w,
      MaxI(e.rd[q].j, 1), e.rd[q].n.n, e.rd[q].i>> : q \in 1..Len(e.rd) }
  \cup (IF Len(e.rd) > 0 THEN {<<"ok", 1, "reads", 0>>} ELSE {})

\* --------------------------------------------------------------------------
\* work of one single-candle append (C07): which (series, index) were computed and how far
\* back candles were read.  wk = <<[calls, minread, n]>> or <<>>
\* --------------------------------------------------------------------------
WorkRepeat == 3     \* a managed helper is driven at most a few times per index by its parent
RECURSIVE MaxOf(_)
MaxOf(S) == IF S = {} THEN 0 ELSE LET x == CHOOSE y \in S : TRUE IN MaxI(x, MaxOf(S \ {x}))
WarmMax(T, j) == MaxOf({Warm(T.ind[n]) : n \in {n \in reg : T.ind[n].mg = j}})
\* the same single-candle append measured at two history lengths (hist2 >> hist1): the number of
\* executed lines of indicator code and of computed readings must not grow with the history
ScaleSlack(nl) == (nl \div 4) + 25
ScaleFindings(e) ==
  LET a == e.wk[1]  b == e.wk[2]
  IN (IF b.lines > a.lines + ScaleSlack(a.lines) THEN {<<"work_scale_lines", 1, "", b.lines>>} ELSE {})
     \cup (IF Len(b.calls) > Len(a.calls) THEN {<<"work_scale_calls", 1, "", Len(b.calls)>>} ELSE {})
     \* the candle manager's own housekeeping per append (conversion resume scan, trimming): measured only
     \* without a collapsing timeframe, where it does not depend on the history either
     \cup (IF b.mlines > a.mlines + ScaleSlack(a.mlines) THEN {<<"work_scale_manager", 1, "", b.mlines>>} ELSE {})
     \cup (IF a.minread >= 0 /\ b.minread >= 0 /\ (b.hist - b.minread) > (a.hist - a.minread) + 2
           THEN {<<"work_scale_lookback", 1, "", b.hist - b.minread>>} ELSE {})
     \cup {<<"ok", 1, "work", 0>>}

WorkFindings(T, e, mid, post) ==
  IF Len(e.wk) = 0 THEN {}
  ELSE IF e.op = "scale" THEN ScaleFindings(e)
  ELSE LET w == e.wk[1]
           j == w.j
           new == {i \in 1..Len(post[j]) :
                     i > Len(mid[j]) \/ \E n \in reg : T.ind[n].mg = j /\ ~KVHas(mid[j][i].ind, T.ind[n].name)}
           lim == Len(post[j]) - Cardinality(new) - WarmMax(T, j)
       IN { <<"work_old_index", j, w.calls[q][1], w.calls[q][2] + 1>> :
               q \in {q \in 1..Len(w.calls) : (w.calls[q][2] + 1) \notin new} }
          \cup { <<"work_repeat", j, w.calls[q][1], w.calls[q][2] + 1>> :
               q \in {q \in 1..Len(w.calls) :
                        Cardinality({p \in 1..Len(w.calls) : w.calls[p] = w.calls[q]}) > WorkRepeat} }
          \cup (IF w.minread >= 0 /\ w.minread + 1 < lim
                THEN {<<"work_lookback", j, "", w.minread + 1>>} ELSE {})
          \cup {<<"ok", j, "work", 0>>}

\* --------------------------------------------------------------------------
\* all findings of one step
\* --------------------------------------------------------------------------
CalcOps == {"append", "calculate", "recalculate", "reconf", "calculate_range"}
ReadOps == {"reads"}

StepFindings(T, e, post) ==
  LET ra == RegAfter(T, e)
      mids == [j \in 1..Len(T.mg) |-> MidOf(T, e, j)]
  IN UNION { LET mid == mids[j]
              sd  == IF mid.ok THEN FirstDiff(ShellSeq(mid.cs), ShellSeq(post[j])) ELSE -2
              \* with a lifespan, readings are only specified while the look-back they need
              \* has survived every trim (C15's precondition)
              rd  == T.mg[j].life < 0 \/ (ok15 /\ LookbackOK(T, e, post))
              tg  == IF e.op = "append" THEN ra ELSE IF e.op = "reconf" THEN {e.idx} ELSE Targets(T, e)
          \* an exception is a finding unless it is the one the specification itself raises for this
          \* input (InvalidCandleOrder on a stream that goes back in time)
          IN IF e.exc # "" THEN (IF ~mid.ok /\ mid.err = e.exc THEN {<<"ok", j, "expected_exc", 0>>}
                                 ELSE IF \E j2 \in 1..Len(T.mg) : ~mids[j2].ok /\ mids[j2].err = e.exc THEN {}
                                 ELSE {<<"exc", j, e.exc, 0>>})
             \* a candle whose values could not be recovered exactly (long Heikin-Ashi chains
             \* outgrow 32 bits) cannot be judged: counted as unchecked, never as a verdict
             ELSE IF \E i \in 1..Len(post[j]) : post[j][i].x = 0 THEN {<<"unchecked", j, "inexact_candle", 0>>}
             ELSE IF e.op = "poke" THEN {}        \* the caller edited a candle: taken as observed
             ELSE IF ~mid.ok THEN {<<"stage_err", j, mid.err, 0>>}
             ELSE IF sd # 0 THEN {<<"stage", j, "", sd>>}
             ELSE (IF ~rd THEN {}
                   ELSE (IF e.op \in CalcOps THEN CalcFindings(T, tg, j, mid.cs, post[j]) ELSE {})
                        \cup (IF e.op = "calculate_index"
                              THEN ReindexFindings(T, tg, j, st[j], post[j], PyIdx(Len(st[j]), e.idx)) ELSE {})
                        \cup (IF e.op = "calculate_index_fresh"
                              THEN ReindexFindingsF(T, tg, j, st[j], post[j], PyIdx(Len(st[j]), e.idx), TRUE) ELSE {})
                        \cup (IF e.op \in {"purge", "remove"} THEN PurgeFindings(T, e, j, mid.cs, post[j]) ELSE {})
                        \cup (IF e.op = "recalculate" THEN RecalcSame(T, e, j, st[j], post[j]) ELSE {})
                        \cup (IF e.op \in {"purge", "remove", "recalculate", "calculate_index", "calculate"}
                                 /\ e.nm # ""
                              THEN OthersFindings(T, e, j, st[j], post[j]) ELSE {})
                        \cup (IF e.op \in {"reads", "add", "new", "collapse"}
                                 /\ (~KVSeqSame(mid.cs, post[j]))
                              THEN {<<"sideeffect", j, e.op, 0>>} ELSE {})
                        \* C02: what was closed before an append is still there afterwards, in the same
                        \* positions behind whatever was trimmed -- nothing is slipped in between closed candles
                        \cup (IF e.op = "append"
                              THEN LET dr == e.m[j].drop
                                       kk == Len(st[j]) - dr - (IF T.mg[j].tf # 0 THEN 1 ELSE 0)
                                       bad == {p \in 1..MaxI(kk, 0) :
                                                 p > Len(post[j]) \/ post[j][p].ts # st[j][p + dr].ts}
                                   IN IF bad = {} THEN {}
                                      ELSE {<<"repaint_order", j, "", CHOOSE p \in bad : \A q \in bad : p <= q>>}
                              ELSE {})
                        \cup StateFindings(T, ra, j, post[j]))
                  \cup (IF j \in MgsAfter(T, e)        \* (a manager that is created later does not exist yet)
                        THEN DefFindings(T, j, IF e.op \in {"new", "append"} THEN e.b ELSE kc, post[j]) ELSE {})
        : j \in 1..Len(T.mg) }
  \cup UNION { IF e.bt[q].clause = "untrimmed" /\ ~(ok15 /\ LookbackOK(T, e, post))
              THEN {<<"ok", e.bt[q].j, "untrimmed_skipped", 0>>}
              ELSE TwinFindings(e.bt[q], post)
                   \cup (IF e.bt[q].clause = "untrimmed" THEN {<<"ok", e.bt[q].j, "untrimmed_compared", 0>>} ELSE {})
            : q \in 1..Len(e.bt) }
  \cup (IF e.exc = "" THEN ReadFindings(T, e, post) ELSE {})
  \cup (IF e.exc = "" /\ \A j \in 1..Len(T.mg) : mids[j].ok
        THEN WorkFindings(T, e, [j \in 1..Len(T.mg) |-> mids[j].cs], post) ELSE {})
  \* the object keeps its attributes over every call; a read-only call changes nothing at all
  \cup (IF e.op # "new" /\ e.exc = ""
           /\ ~({ob.at[q] : q \in 1..Len(ob.at)} \subseteq {e.ob.at[q] : q \in 1..Len(e.ob.at)})
        THEN {<<"attrs_lost", 1, e.op, 0>>} ELSE {})
  \cup (IF e.op \in ReadOps /\ e.ob # ob THEN {<<"sideeffect", 1, "object", 0>>} ELSE {})
  \* every registered indicator works on one of the candle lists the Hexital holds and feeds
  \cup (IF e.exc = "" /\ e.ob.orph > 0 THEN {<<"orphan_manager", 1, e.op, e.ob.orph>>} ELSE {})
  \* the caller's containers are left as they were
  \cup (IF e.ab # e.aa THEN {<<"args_mutated", 1, e.op, 0>>}
        ELSE IF Len(e.ab) > 0 THEN {<<"ok", 1, "args", 0>>} ELSE {})

\* --------------------------------------------------------------------------
\* the trace behaviour
\* --------------------------------------------------------------------------
Init ==
  /\ tid \in 1..Len(Traces)
  /\ l = 1
  /\ acc = [fails |-> <<>>, unch |-> 0, nchk |-> 0, notes |-> <<>>]
  /\ st = [j \in 1..Len(Traces[tid].mg) |-> <<>>]
  /\ fails = <<>>
  /\ unch = 0
  /\ nchk = 0
  /\ kc = 0
  /\ ok15 = TRUE
  /\ trimmed = FALSE
  /\ notes = <<>>
  /\ reg = {}
  /\ mgs = {}
  /\ ob = [at |-> <<>>, ai |-> 0, orph |-> 0]

\* what one call adds to the report.  (An operator of its own on purpose: TLC does not cache LET
\* definitions while it enumerates an action's successors, it does inside the expression assigned to a
\* primed variable -- with the findings computed in Step's own LET every reference to them, one per
\* finding in the filters below, recomputed StepFindings.)
Digest(T, e, post, pos, sofar) ==
  LET fs   == StepFindings(T, e, post)
      \* a scenario family may mute clauses that say nothing about it (T.mute)
      bad  == {f \in fs : f[1] \notin (IF DebugUnch THEN {"ok"} ELSE {"ok", "unchecked"})
                           /\ f[1] \notin {T.mute[q] : q \in 1..Len(T.mute)}}
      \* at most a few findings per clause and call (the lowest candles): one clause failing on every
      \* candle must not crowd the others out of the report
      low  == {f \in bad : Cardinality({g \in bad : g[1] = f[1] /\ g[4] < f[4]}) < 2}
      few  == UNION { LET S  == {f \in low : f[1] = c}
                          f1 == CHOOSE f \in S : TRUE
                      IN IF S = {f1} THEN {f1} ELSE {f1, CHOOSE f \in S \ {f1} : TRUE}
                    : c \in {f[1] : f \in low} }
      bseq == SetAsSeq(few)
  IN [fails |-> IF Len(sofar) >= MaxFails THEN <<>>
                ELSE [q \in 1..MinI(Len(bseq), MaxFails - Len(sofar)) |-> <<pos>> \o bseq[q]],
      unch  |-> Cardinality({f \in fs : f[1] = "unchecked"}),
      nchk  |-> Cardinality({f \in fs : f[1] = "ok"}),
      notes |-> SetAsSeq({f[3] : f \in {g \in fs : g[1] = "ok" /\ g[4] = 0 /\ g[3] \in NoteNames}})]

Step ==
  /\ l <= Len(Traces[tid].ev)
  /\ LET T    == Traces[tid]
         e    == T.ev[l]
     \* (the observed post-state is assigned FIRST and read back as st' everywhere else: a LET definition of
     \*  Step itself would be recomputed at every reference, see Digest)
     IN /\ st' = [j \in 1..Len(T.mg) |-> ApplyDelta(st[j], e.m[j])]
        /\ acc' = Digest(T, e, st', l, fails)
        /\ fails' = fails \o acc'.fails
        /\ unch' = unch + acc'.unch
        /\ nchk' = nchk + acc'.nchk
        /\ kc' = IF e.op \in {"new", "append"} THEN e.b ELSE kc
        /\ ok15' = (ok15 /\ (e.op \in {"append", "calculate"} => LookbackOK(T, e, st')))
        /\ trimmed' = (trimmed \/ \E j \in 1..Len(T.mg) :
                            \/ e.m[j].drop > 0
                            \/ TrimNow(T, e, j)
                            \/ (e.op = "new" /\ T.mg[j].life >= 0 /\ DefApplies(T, j)
                                /\ Len(st'[j]) < Len(ShownDef(RawSlice(T, 1, e.b),
                                                               [MCfg(T.mg[j]) EXCEPT !.life = -1])))
                            \/ (e.op = "new" /\ T.mg[j].life >= 0 /\ ~DefApplies(T, j)))
        /\ notes' = notes \o acc'.notes
        /\ reg' = RegAfter(T, e)
        /\ mgs' = MgsAfter(T, e)
        /\ ob' = e.ob
        /\ l' = l + 1
        /\ tid' = tid

Next == Step
Spec == Init /\ [][Next]_tvars

\* one line per finished trace (single-line PrintT so that 16 workers do not interleave)
Report ==
  (l > Len(Traces[tid].ev)) =>
     PrintT("RESULT " \o ToJson([tid |-> tid, id |-> Traces[tid].id, nf |-> Len(fails),
                                 unch |-> unch, nchk |-> nchk, fails |-> fails, notes |-> notes]))
=============================================================================
