------------------------------ MODULE Analysis ------------------------------
(***************************************************************************)
(* hexital/analysis: movement functions, candle-shape helpers and the four *)
(* candlestick patterns, as functions of a candle list and a Python index. *)
(*                                                                         *)
(* Intended semantics (C16, C17): an answer for candle i is a function of  *)
(* candles 0..i only -- windows stop at the first candle, nothing wraps    *)
(* around to the end of the list -- positive and negative indices address  *)
(* the same candle, missing readings are ignored and never raise.          *)
(* Results are values of Val.tla; a sequence of acceptable results is      *)
(* returned (two where a strict comparison is an exact tie that float      *)
(* noise decides).                                                         *)
(***************************************************************************)
EXTENDS Val

NOIDX == 999999
\* indexing.absindex: 0-based absolute index, -1 when invalid
AbsIx(ix, n) ==
  IF ix = NOIDX THEN n - 1
  ELSE IF ~(ix < n /\ ix >= -n) THEN -1
  ELSE IF ix < 0 THEN n + ix ELSE ix

NumV(v) == v.t = "q"
At(cs, r, i0) == IF i0 < 0 \/ i0 >= Len(cs) THEN NoneV ELSE GetRef(cs[i0 + 1], r)

\* _get_clean_readings: numeric readings of positions max(0, i0-len) .. i0 (or i0-1), newest first
CleanR(cs, r, len, i0, incl) ==
  LET lo == MaxI(0, i0 - len)
      hi == IF incl THEN i0 ELSE i0 - 1
      vs == [k \in 1..MaxI(0, hi - lo + 1) |-> At(cs, r, hi - k + 1)]
      ks == SelectSeq(vs, NumV)
  IN [k \in 1..Len(ks) |-> NumOf(ks[k])]

Bools(b) == <<BoolV(b)>>
Tie == <<BoolV(TRUE), BoolV(FALSE)>>
\* strict a < b on rationals with the tie left open; NaR -> cannot be computed
LtR(a, b) == IF IsNaR(a) \/ IsNaR(b) THEN <<NarV>> ELSE IF a = b THEN Tie ELSE Bools(Lt(a, b))

\* combine per-clause answers (each a sequence of BoolV alternatives) with AND
AndAlt(xs) ==
  IF \E k \in 1..Len(xs) : xs[k] = <<NarV>> THEN <<NarV>>
  ELSE IF \E k \in 1..Len(xs) : xs[k] = Bools(FALSE) THEN Bools(FALSE)
  ELSE IF \E k \in 1..Len(xs) : xs[k] = Tie THEN Tie
  ELSE Bools(TRUE)
OrAlt(xs) ==
  IF \E k \in 1..Len(xs) : xs[k] = Bools(TRUE) THEN Bools(TRUE)
  ELSE IF \E k \in 1..Len(xs) : xs[k] = <<NarV>> THEN <<NarV>>
  ELSE IF \E k \in 1..Len(xs) : xs[k] = Tie THEN Tie
  ELSE Bools(FALSE)
NotAlt(x) == IF x = Bools(TRUE) THEN Bools(FALSE) ELSE IF x = Bools(FALSE) THEN Bools(TRUE) ELSE x

(***************************************************************************)
(* movement                                                                *)
(***************************************************************************)
Above(cs, a, b, i0) ==
  LET x == At(cs, a, i0)  y == At(cs, b, i0)
  IN IF NumV(x) /\ NumV(y) THEN LtR(NumOf(y), NumOf(x)) ELSE Bools(FALSE)
Below(cs, a, b, i0) ==
  LET x == At(cs, a, i0)  y == At(cs, b, i0)
  IN IF NumV(x) /\ NumV(y) THEN LtR(NumOf(x), NumOf(y)) ELSE Bools(FALSE)

FAbove(cs, q) == IF Len(cs) = 0 THEN Bools(FALSE) ELSE Above(cs, q.a, q.b, AbsIx(q.i, Len(cs)))
FBelow(cs, q) == IF Len(cs) = 0 THEN Bools(FALSE) ELSE Below(cs, q.a, q.b, AbsIx(q.i, Len(cs)))

\* current strictly greater (less) than every previous reading `len` bars back
Trend(cs, q, up) ==
  LET n == Len(cs)  i0 == AbsIx(q.i, n)
  IN IF i0 < 0 \/ q.len < 1 \/ n < 2 THEN Bools(FALSE)
     ELSE LET cur == At(cs, q.a, i0)
              prev == CleanR(cs, q.a, q.len, i0, FALSE)
          IN IF ~NumV(cur) \/ Len(prev) = 0 THEN Bools(FALSE)
             ELSE AndAlt([k \in 1..Len(prev) |->
                     IF up THEN LtR(prev[k], NumOf(cur)) ELSE LtR(NumOf(cur), prev[k])])

MeanTrend(cs, q, up) ==
  LET n == Len(cs)  i0 == AbsIx(q.i, n)
  IN IF i0 < 0 \/ q.len < 1 \/ n < 2 THEN Bools(FALSE)
     ELSE LET cur == At(cs, q.a, i0)
              prev == CleanR(cs, q.a, q.len, i0, FALSE)
          IN IF ~NumV(cur) \/ Len(prev) = 0 THEN Bools(FALSE)
             ELSE LET mu == Div(SumR(prev), R(Len(prev)))
                  IN IF up THEN LtR(mu, NumOf(cur)) ELSE LtR(NumOf(cur), mu)

Extreme(cs, q, hi) ==
  LET n == Len(cs)  i0 == AbsIx(q.i, n)
  IN IF i0 < 0 \/ q.len < 1 \/ n = 0 THEN Bools(FALSE)      \* as shipped: False, not None
     ELSE LET w == CleanR(cs, q.a, q.len, i0, TRUE)
          IN IF Len(w) = 0 THEN <<NoneV>>
             ELSE IF AnyNaR(w) THEN <<NarV>>
             ELSE <<QV(IF hi THEN MaxR(w) ELSE MinR(w))>>

\* offset of the most recent extreme among the `len` candles ending at i0 (missing skipped)
RECURSIVE BarWalk(_, _, _, _, _, _, _, _)
BarWalk(cs, r, i0, len, k, best, dist, hi) ==
  \* (deviation "analysis_wraps": as shipped, a negative position wrapped around to the end of the list)
  IF k >= len \/ (i0 - k < 0 /\ "analysis_wraps" \notin Dev) \/ i0 - k < -Len(cs) THEN dist
  ELSE LET v == At(cs, r, IF i0 - k < 0 THEN Len(cs) + i0 - k ELSE i0 - k)
       IN IF ~NumV(v) THEN BarWalk(cs, r, i0, len, k + 1, best, dist, hi)
          ELSE IF IsNaR(best) THEN BarWalk(cs, r, i0, len, k + 1, NumOf(v), k, hi)
          ELSE IF (hi /\ Lt(best, NumOf(v))) \/ (~hi /\ Gt(best, NumOf(v)))
            THEN BarWalk(cs, r, i0, len, k + 1, NumOf(v), k, hi)
          ELSE BarWalk(cs, r, i0, len, k + 1, best, dist, hi)
ExtremeBar(cs, q, hi) ==
  LET i0 == AbsIx(q.i, Len(cs))
  IN IF i0 < 0 THEN <<NoneV>>
     ELSE <<[t |-> "q", n |-> BarWalk(cs, q.a, i0, q.len, 0, NaR, 0, hi), d |-> 1]>>

ValueRange(cs, q) ==
  LET i0 == AbsIx(q.i, Len(cs))
  IN IF i0 < 0 \/ q.len < 2 THEN <<NoneV>>
     ELSE LET w == CleanR(cs, q.a, q.len, i0, TRUE)
          IN IF Len(w) < 2 THEN <<NoneV>>
             ELSE IF AnyNaR(w) THEN <<NarV>>
             ELSE <<QV(Abs(Sub(MinR(w), MaxR(w))))>>

\* a cross at position j needs candle j - 1: the first candle never crosses
CrossAt(cs, q, j, kind) ==
  IF j < 1 THEN Bools(FALSE)
  ELSE CASE kind = "over" -> AndAlt(<<Above(cs, q.a, q.b, j), Below(cs, q.a, q.b, j - 1)>>)
         [] kind = "under" -> AndAlt(<<Below(cs, q.a, q.b, j), Above(cs, q.a, q.b, j - 1)>>)
         [] kind = "any" ->
              LET x1 == At(cs, q.a, j)  y1 == At(cs, q.b, j)
                  x0 == At(cs, q.a, j - 1)  y0 == At(cs, q.b, j - 1)
              IN IF ~(NumV(x1) /\ NumV(y1) /\ NumV(x0) /\ NumV(y0)) THEN Bools(FALSE)
                 ELSE OrAlt(<<AndAlt(<<LtR(NumOf(y1), NumOf(x1)), NotAlt(LtR(NumOf(y0), NumOf(x0)))>>),
                              AndAlt(<<LtR(NumOf(x1), NumOf(y1)), NotAlt(LtR(NumOf(x0), NumOf(y0)))>>)>>)
Cross(cs, q, kind) ==
  LET i0 == AbsIx(q.i, Len(cs))
  IN IF i0 < 0 THEN Bools(FALSE)
     ELSE OrAlt([k \in 1..MaxI(0, MinI(q.len, i0 + 1)) |-> CrossAt(cs, q, i0 - k + 1, kind)])

PosNeg(cs, q, pos) ==
  LET i0 == AbsIx(q.i, Len(cs))
  IN IF i0 < 0 THEN Bools(FALSE)
     ELSE IF pos THEN Bools(Positive(cs[i0 + 1])) ELSE Bools(Negative(cs[i0 + 1]))

(***************************************************************************)
(* pattern helpers (analysis/utils.py) and patterns                        *)
(***************************************************************************)
\* sum over positions max(0, i0+1-len) .. i0 divided by len (the current candle included)
AvgOf(cs, len, i0, Fn(_)) ==
  LET lo == MaxI(0, i0 + 1 - len)
  IN Div(SumR([k \in 1..(i0 - lo + 1) |-> Fn(cs[lo + k])]), R(len))
RealBodyAvg(cs, len, i0) == AvgOf(cs, len, i0, RealBody)
HighLowAvg(cs, len, i0) == AvgOf(cs, len, i0, HighLow)

CandleDoji(cs, i0) == Mul(HighLowAvg(cs, 10, i0), Q(1, 10))
BodyLong(cs, i0) == RealBodyAvg(cs, 10, i0)
BodyShort(cs, i0) == RealBodyAvg(cs, 10, i0)
ShadowVeryShort(cs, i0) == Mul(HighLowAvg(cs, 10, i0), Q(1, 10))
ShadowLong(cs, i0) == RealBody(cs[i0 + 1])
Near(cs, i0) == Mul(HighLowAvg(cs, 5, i0), Q(2, 10))

BodyGapUp(c, p) == Gt(Min(c.o, c.c), Max(p.o, p.c))
BodyGapDown(c, p) == Lt(Max(c.o, c.c), Min(p.o, p.c))
\* non-strict a <= b with the tie left open (a tie is decided by float noise in the average)
LeR(a, b) == IF IsNaR(a) \/ IsNaR(b) THEN <<NarV>> ELSE IF a = b THEN Tie ELSE Bools(Lt(a, b))

PatternAt(cs, name, i0) ==
  IF i0 < 10 THEN Bools(FALSE)
  ELSE LET c == cs[i0 + 1]  p == cs[i0]
       IN CASE name = "doji" -> LtR(RealBody(c), CandleDoji(cs, i0))
            [] name = "dojistar" ->
                 AndAlt(<<LtR(BodyLong(cs, i0 - 1), RealBody(p)),
                          LeR(RealBody(c), CandleDoji(cs, i0)),
                          Bools((Positive(p) /\ BodyGapUp(c, p)) \/ (Negative(p) /\ BodyGapDown(c, p)))>>)
            [] name = "hammer" ->
                 AndAlt(<<LtR(RealBody(c), BodyShort(cs, i0)),
                          LtR(ShadowLong(cs, i0), ShadowLower(c)),
                          LtR(ShadowUpper(c), ShadowVeryShort(cs, i0)),
                          LeR(Min(c.c, c.o), Add(p.l, Near(cs, i0 - 1)))>>)
            [] name = "inv_hammer" ->
                 AndAlt(<<LtR(RealBody(c), BodyShort(cs, i0)),
                          LtR(ShadowLong(cs, i0), ShadowUpper(c)),
                          LtR(ShadowLower(c), ShadowVeryShort(cs, i0)),
                          Bools(BodyGapDown(c, p))>>)

\* lookback (q.len > 0): any of the `lookback` candles ending at the index; 0 = not given
Pattern(cs, q, name) ==
  LET i0 == AbsIx(q.i, Len(cs))
  IN IF i0 < 0 THEN Bools(FALSE)
     ELSE IF q.len = 0 THEN PatternAt(cs, name, i0)
     ELSE OrAlt([k \in 1..MaxI(0, MinI(q.len, i0 + 1)) |-> PatternAt(cs, name, i0 - k + 1)])

(***************************************************************************)
(* dispatch: q = [fn, a, b, len, i]                                        *)
(***************************************************************************)
Eval(cs, q) ==
  CASE q.fn = "above" -> FAbove(cs, q)
    [] q.fn = "below" -> FBelow(cs, q)
    [] q.fn = "rising" -> Trend(cs, q, TRUE)
    [] q.fn = "falling" -> Trend(cs, q, FALSE)
    [] q.fn = "mean_rising" -> MeanTrend(cs, q, TRUE)
    [] q.fn = "mean_falling" -> MeanTrend(cs, q, FALSE)
    [] q.fn = "highest" -> Extreme(cs, q, TRUE)
    [] q.fn = "lowest" -> Extreme(cs, q, FALSE)
    [] q.fn = "highestbar" -> ExtremeBar(cs, q, TRUE)
    [] q.fn = "lowestbar" -> ExtremeBar(cs, q, FALSE)
    [] q.fn = "value_range" -> ValueRange(cs, q)
    [] q.fn = "cross" -> Cross(cs, q, "any")
    [] q.fn = "crossover" -> Cross(cs, q, "over")
    [] q.fn = "crossunder" -> Cross(cs, q, "under")
    [] q.fn = "positive" -> PosNeg(cs, q, TRUE)
    [] q.fn = "negative" -> PosNeg(cs, q, FALSE)
    [] q.fn \in {"doji", "dojistar", "hammer", "inv_hammer"} -> Pattern(cs, q, q.fn)

\* geometry of one candle (C17): body, shadows, range, sign
Geometry(c) ==
  [body |-> Abs(Sub(c.o, c.c)), upper |-> Sub(c.h, Max(c.o, c.c)), lower |-> Sub(Min(c.o, c.c), c.l),
   range |-> Sub(c.h, c.l), pos |-> Gt(c.c, c.o), neg |-> Lt(c.c, c.o)]

=============================================================================
