----------------------------- MODULE MC_Hexital -----------------------------
(***************************************************************************)
(* C08 on the specification: the candle manager a Hexital builds for a     *)
(* member on another timeframe -- at construction from copies of the       *)
(* candles as they were given, by add_indicator later from copies of what  *)
(* the default manager holds by then -- and then fed every appended chunk  *)
(* alongside the default manager, holds exactly the candles of a           *)
(* standalone manager with the same effective configuration fed the whole  *)
(* stream; and the default manager keeps the original OHLCV recoverable.   *)
(* All streams over a gap alphabet x all chunkings x Hexital-level         *)
(* timeframe / fill / Heikin-Ashi / lifespan.                              *)
(* Deviation from_default: at construction the member starts from the      *)
(* default manager's candles too (as shipped before the repair): breaks    *)
(* the invariant under a lifespan (K01) and under gap filling (K02) --     *)
(* both were found on this model / by the trace check and repaired.        *)
(***************************************************************************)
EXTENDS Manager, TLC

CONSTANTS TF, MaxLen, MaxChunk, Gaps
LifesH == {-1, 8}

RECURSIVE Pow2(_)
Pow2(k) == IF k <= 0 THEN 1 ELSE 2 * Pow2(k - 1)
CandleNo(k, ts) ==
  LET o == 10 + ((k * 3) % 7)  c == 10 + ((k * 5) % 7)
  IN MkCandle(ts, R(o), R(MaxI(o, c) + (k % 3)), R(MinI(o, c) - ((k * 2) % 3)), R(c), R(Pow2(k - 1)))
RECURSIVE Extend(_, _)
Extend(s, gs) ==
  IF gs = <<>> THEN s
  ELSE LET ts == IF s = <<>> THEN Head(gs) ELSE Last(s).ts + Head(gs)
       IN Extend(Append(s, CandleNo(Len(s) + 1, ts)), Tail(gs))

VARIABLES hcfg, mtf, raw, dflt, mem, has, ok, pre, late
vars == <<hcfg, mtf, raw, dflt, mem, has, ok, pre, late>>
\* has: the member's manager exists (created at construction or by a later add_indicator: late)
DevFromDefault == {"from_default"}

MemCfg == [hcfg EXCEPT !.tf = mtf]

Create(dc) == MgrNew(RawCopies(dc), MemCfg)

Init ==
  /\ hcfg \in {c \in {MkCfg(tf, fill, life, ha) : tf \in {0, TF}, fill \in BOOLEAN, life \in LifesH, ha \in BOOLEAN} :
                 (c.fill => c.tf # 0) /\ ~(c.fill /\ c.ha) /\ ~(c.ha /\ c.life >= 0)}
  /\ mtf \in {TF, 2 * TF}
  /\ \E n \in 0..2 : \E gs \in [1..n -> Gaps] :
        LET s == Extend(<<>>, gs)
            d == MgrNew(s, hcfg)
        IN /\ raw = s /\ pre = n /\ dflt = d.cs
           /\ \E now \in BOOLEAN :
                 /\ has = now
                 /\ late = FALSE
                 /\ IF now THEN (LET m == IF "from_default" \in Dev THEN Create(d.cs) ELSE Create(s)
                                 IN mem = m.cs /\ ok = (d.ok /\ m.ok))
                    ELSE mem = <<>> /\ ok = d.ok

AppendStep ==
  /\ ok
  /\ \E n \in 1..MaxChunk : \E gs \in [1..n -> Gaps] :
       /\ Len(raw) + n <= MaxLen
       /\ LET all == Extend(raw, gs)
              new == SubSeq(all, Len(raw) + 1, Len(all))
              m   == IF has THEN MgrAppend(mem, new, MemCfg) ELSE [ok |-> TRUE, err |-> "", cs |-> mem]
              d   == MgrAppend(dflt, new, hcfg)
          IN raw' = all /\ dflt' = d.cs /\ mem' = m.cs /\ ok' = (d.ok /\ m.ok)
  /\ UNCHANGED <<hcfg, mtf, has, pre, late>>

\* add_indicator(member with timeframe mtf) after some candles have arrived
AddLater ==
  /\ ok /\ ~has
  /\ LET m == Create(dflt) IN mem' = m.cs /\ ok' = m.ok
  /\ has' = TRUE /\ late' = TRUE
  /\ UNCHANGED <<hcfg, mtf, raw, dflt, pre>>

Next == AppendStep \/ AddLater
Spec == Init /\ [][Next]_vars

\* the standalone manager of the same effective configuration over the whole stream
Standalone == MgrNew(raw, MemCfg).cs

\* C08: a member registered at construction equals its standalone twin under EVERY Hexital-level setting;
\* one added later starts from what the default manager holds by then -- with a lifespan that is already
\* trimmed, with gap filling it contains inserted candles: those two late classes are outside the claim
C08_MemberEqStandalone ==
  (ok /\ has /\ (late => (hcfg.life < 0 /\ ~hcfg.fill))) => ShellSeq(mem) = ShellSeq(Standalone)
\* the two excluded late classes do fail on the model (kept as non-vacuity checks); with the deviation
\* from_default the same two invariants fail for members registered at construction (K01, K02 as shipped)
K01_Holds == (ok /\ has /\ ~hcfg.fill) => ShellSeq(mem) = ShellSeq(Standalone)
K02_Holds == (ok /\ has /\ hcfg.life < 0) => ShellSeq(mem) = ShellSeq(Standalone)
\* (members registered at construction only: must hold now, must fail with the deviation)
C08_AtConstruction == (ok /\ has /\ ~late) => ShellSeq(mem) = ShellSeq(Standalone)

\* the default manager shows what its own configuration defines, raw values recoverable
C08_BaseKeepsOHLCV ==
  ok => [i \in 1..Len(dflt) |-> CleanCore(dflt[i])] = CleanDef(raw, hcfg)

NoError == ok
=============================================================================
