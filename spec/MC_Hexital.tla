----------------------------- MODULE MC_Hexital -----------------------------
(***************************************************************************)
(* C08 on the specification: the candle manager a Hexital builds for a     *)
(* member on another timeframe -- from copies of the default manager's     *)
(* candles (construction, or add_indicator later) and then fed every       *)
(* appended chunk alongside the default manager -- always holds exactly    *)
(* the candles of a standalone manager with the same effective             *)
(* configuration fed the whole stream; and the default manager keeps the   *)
(* original OHLCV recoverable.  All streams over a gap alphabet x all      *)
(* chunkings x Hexital-level timeframe / fill / Heikin-Ashi / lifespan.    *)
(***************************************************************************)
EXTENDS Manager, TLC

CONSTANTS TF, MaxLen, MaxChunk, Gaps
LifesH == {-1, 8}

RECURSIVE Pow2(_)
Pow2(k) == IF k <= 0 THEN 1 ELSE 2 * Pow2(k - 1)
CandleNo(k, ts) ==
  LET o == 10 + ((k * 3) % 7)  c == 10 + ((k * 5) % 7)
  IN MkCandle(ts, R(o), R(MaxI(o, c) + (k % 3)), R(MinI(o, c) - ((k * 2) % 3)), R(c), R(Pow2(k - 1)))
RECURSIVE Extend(_, _)
Extend(s, gs) ==
  IF gs = <<>> THEN s
  ELSE LET ts == IF s = <<>> THEN Head(gs) ELSE Last(s).ts + Head(gs)
       IN Extend(Append(s, CandleNo(Len(s) + 1, ts)), Tail(gs))

VARIABLES hcfg, mtf, raw, dflt, mem, has, ok, pre
vars == <<hcfg, mtf, raw, dflt, mem, has, ok, pre>>
\* has: the member's manager exists (created at construction or by a later add_indicator)

MemCfg == [hcfg EXCEPT !.tf = mtf]

Create(dc) == MgrNew(RawCopies(dc), MemCfg)

Init ==
  /\ hcfg \in {c \in {MkCfg(tf, fill, life, ha) : tf \in {0, TF}, fill \in BOOLEAN, life \in LifesH, ha \in BOOLEAN} :
                 (c.fill => c.tf # 0) /\ ~(c.fill /\ c.ha) /\ ~(c.ha /\ c.life >= 0)}
  /\ mtf \in {TF, 2 * TF}
  /\ \E n \in 0..2 : \E gs \in [1..n -> Gaps] :
        LET s == Extend(<<>>, gs)
            d == MgrNew(s, hcfg)
        IN /\ raw = s /\ pre = n /\ dflt = d.cs
           /\ \E now \in BOOLEAN :
                 /\ has = now
                 /\ IF now THEN (LET m == Create(d.cs) IN mem = m.cs /\ ok = (d.ok /\ m.ok))
                    ELSE mem = <<>> /\ ok = d.ok

AppendStep ==
  /\ ok
  /\ \E n \in 1..MaxChunk : \E gs \in [1..n -> Gaps] :
       /\ Len(raw) + n <= MaxLen
       /\ LET all == Extend(raw, gs)
              new == SubSeq(all, Len(raw) + 1, Len(all))
              m   == IF has THEN MgrAppend(mem, new, MemCfg) ELSE [ok |-> TRUE, err |-> "", cs |-> mem]
              d   == MgrAppend(dflt, new, hcfg)
          IN raw' = all /\ dflt' = d.cs /\ mem' = m.cs /\ ok' = (d.ok /\ m.ok)
  /\ UNCHANGED <<hcfg, mtf, has, pre>>

\* add_indicator(member with timeframe mtf) after some candles have arrived
AddLater ==
  /\ ok /\ ~has
  /\ LET m == Create(dflt) IN mem' = m.cs /\ ok' = m.ok
  /\ has' = TRUE
  /\ UNCHANGED <<hcfg, mtf, raw, dflt, pre>>

Next == AppendStep \/ AddLater
Spec == Init /\ [][Next]_vars

\* the standalone manager of the same effective configuration over the whole stream
Standalone == MgrNew(raw, MemCfg).cs

\* C08 (K01 excluded: with a lifespan the default candles a later manager starts from are already
\* trimmed -- the open known finding; and a member can only be as fine as what the default keeps)
\* K02 excluded likewise: with Hexital-level gap filling the default candles contain inserted
\* candles, and a coarser member built from them merges those as if they were trades (found by
\* TLC on this model, confirmed on the code, recorded as an open finding)
C08_MemberEqStandalone ==
  (ok /\ has /\ hcfg.life < 0 /\ ~hcfg.fill) => ShellSeq(mem) = ShellSeq(Standalone)
\* the two excluded classes do fail on the model (kept as non-vacuity checks)
K01_Holds == (ok /\ has /\ ~hcfg.fill) => ShellSeq(mem) = ShellSeq(Standalone)
K02_Holds == (ok /\ has /\ hcfg.life < 0) => ShellSeq(mem) = ShellSeq(Standalone)

\* the default manager shows what its own configuration defines, raw values recoverable
C08_BaseKeepsOHLCV ==
  ok => [i \in 1..Len(dflt) |-> CleanCore(dflt[i])] = CleanDef(raw, hcfg)

NoError == ok
=============================================================================
