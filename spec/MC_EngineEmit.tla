---------------------------- MODULE MC_EngineEmit ----------------------------
(***************************************************************************)
(* Behaviours of MC_Engine for replay into the real code (spec -> code).   *)
(* MC_Engine's Next extended with a history variable: every step records   *)
(* the call (operation, target, position), the registry and the complete   *)
(* candle list the specification expects after it -- candles, top-level    *)
(* readings and every helper series, as exact rationals.  Run in           *)
(* simulation mode; each behaviour that reaches a terminal state (stream   *)
(* consumed, maintenance budget used) is printed as one JSON line.         *)
(* harness/replay_engine.py drives a Hexital through the same calls and    *)
(* compares the state after every one of them.                             *)
(***************************************************************************)
EXTENDS MC_Engine, Json

VARIABLES hist, claim, trimmedE
varsE == <<vars, hist, claim, trimmedE>>
\* claim: under a lifespan the specification only speaks while C15's look-back precondition has held at
\* every append (Props!SurvOK for every registered indicator); the replay stops at the first call that
\* is outside it (a window shorter than an indicator's look-back is not something a property describes)

\* the wide instance used for replay (simulation only: no state graph is built, so the menu, the
\* streams and the programs can be much larger than in the exhaustive MC_Engine configurations)
CfgM(kind, name, p, p2, p3, m) == [Cfg(kind, name, p, p2, p3) EXCEPT !.m = m]
MenuWide == << Cfg("EMA", "EMA_2", 2, 0, 0), Cfg("SMA", "SMA_3", 3, 0, 0), Cfg("ATR", "ATR_2", 2, 0, 0),
               Cfg("RSI", "RSI_2", 2, 0, 0), Cfg("STOCH", "STOCH_2", 2, 2, 2), Cfg("OBV", "OBV", 0, 0, 0),
               Cfg("KC", "KC_2", 2, 0, 0), Cfg("MACD", "MACD_2_3_2", 2, 3, 2),
               CfgM("Supertrend", "ST_2", 2, 0, 0, <<3, 1>>), Cfg("WMA", "WMA_3", 3, 0, 0),
               Cfg("RMA", "RMA_2", 2, 0, 0), Cfg("DONCHIAN", "DON_2", 2, 0, 0), Cfg("HL", "HL_3", 3, 0, 0),
               Cfg("VWAP", "VWAP_x", 0, 0, 0), Cfg("ROC", "ROC_2", 2, 0, 0), Cfg("AROON", "AROON_3", 3, 0, 0),
               Cfg("TR", "TR", 0, 0, 0), Cfg("HLA", "HLA", 0, 0, 0), Cfg("VWMA", "VWMA_2", 2, 0, 0) >>
PairsWide == {pr \in (1..Len(MenuWide)) \X (1..Len(MenuWide)) : pr[1] # pr[2]}
SymWide == << <<10, 12, 9, 11, 2>>, <<14, 14, 8, 9, 3>>, <<11, 11, 11, 11, 0>>, <<9, 13, 9, 13, 1>>,
              <<12, 12, 7, 8, 4>>, <<13, 15, 12, 14, 0>> >>
MCfgsWide == {MkCfg(0, FALSE, -1, FALSE), MkCfg(TF, FALSE, -1, FALSE), MkCfg(TF, TRUE, -1, FALSE),
              MkCfg(0, FALSE, 5, FALSE), MkCfg(TF, FALSE, 9, FALSE), MkCfg(0, FALSE, -1, TRUE),
              MkCfg(TF, FALSE, -1, TRUE)}
ChunkWide == 2

Snap(cs) == [i \in 1..Len(cs) |->
               [ts |-> cs[i].ts, o |-> cs[i].o, h |-> cs[i].h, l |-> cs[i].l, c |-> cs[i].c, v |-> cs[i].v,
                ind |-> cs[i].ind, sub |-> cs[i].sub]]

DroppedE(pre, post) ==
  IF pre = <<>> THEN 0
  ELSE IF post = <<>> THEN Len(pre)
  ELSE Cardinality({i \in 1..Len(pre) : pre[i].ts < post[1].ts})

InitE == Init /\ hist = <<>> /\ claim = TRUE /\ trimmedE = FALSE
NextE ==
  /\ Next
  /\ LET isApp == last'.op = "append"
         m     == MgrAppend(st.cs, SubSeq(raw', Len(raw) + 1, Len(raw')), mcfg)
         dr    == IF isApp THEN DroppedE(st.cs, m.cs) ELSE 0
         ok    == (isApp /\ mcfg.life >= 0 /\ (trimmedE \/ dr > 0))
                     => \A k \in 1..Len(reg) : SurvOK(Menu[reg[k]], st.cs, m.cs, dr)
     IN /\ trimmedE' = (trimmedE \/ dr > 0)
        /\ claim' = (claim /\ ok)
        /\ hist' = Append(hist, [op |-> last'.op, n |-> last'.n, i |-> last'.i, raw |-> Len(raw'),
                                 reg |-> reg', cs |-> Snap(st'.cs), claim |-> claim /\ ok])
SpecE == InitE /\ [][NextE]_varsE

Terminal == Len(raw) = MaxLen /\ nops = MaxOps
Emit == Terminal =>
  PrintT("EMIT " \o ToJson([cfg |-> mcfg, raw |-> Snap(raw), hist |-> hist,
                            menu |-> [k \in 1..Len(Menu) |->
                                        [name |-> Menu[k].name, kind |-> Menu[k].kind, p |-> Menu[k].p,
                                         p2 |-> Menu[k].p2, p3 |-> Menu[k].p3]]]))
=============================================================================
