---------------------------- MODULE MC_EngineEmit ----------------------------
(***************************************************************************)
(* Behaviours of MC_Engine for replay into the real code (spec -> code).   *)
(* MC_Engine's Next extended with a history variable: every step records   *)
(* the call (operation, target, position), the registry and the complete   *)
(* candle list the specification expects after it -- candles, top-level    *)
(* readings and every helper series, as exact rationals.  Run in           *)
(* simulation mode; each behaviour that reaches a terminal state (stream   *)
(* consumed, maintenance budget used) is printed as one JSON line.         *)
(* harness/replay_engine.py drives a Hexital through the same calls and    *)
(* compares the state after every one of them.                             *)
(***************************************************************************)
EXTENDS MC_Engine, Json

VARIABLE hist
varsE == <<vars, hist>>

Snap(cs) == [i \in 1..Len(cs) |->
               [ts |-> cs[i].ts, o |-> cs[i].o, h |-> cs[i].h, l |-> cs[i].l, c |-> cs[i].c, v |-> cs[i].v,
                ind |-> cs[i].ind, sub |-> cs[i].sub]]

InitE == Init /\ hist = <<>>
NextE == Next /\ hist' = Append(hist, [op |-> last'.op, n |-> last'.n, i |-> last'.i, raw |-> Len(raw'),
                                       reg |-> reg', cs |-> Snap(st'.cs)])
SpecE == InitE /\ [][NextE]_varsE

Terminal == Len(raw) = MaxLen /\ nops = MaxOps
Emit == Terminal =>
  PrintT("EMIT " \o ToJson([cfg |-> mcfg, raw |-> Snap(raw), hist |-> hist,
                            names |-> [k \in 1..Len(Menu) |-> Menu[k].name]]))
=============================================================================
