SPECIFICATION Spec
CONSTANTS
  MaxLen = 5
  MaxChunk = 3
  Lifes <- LifesQuick
  TFs <- TFsQuick
INVARIANT Witness
CHECK_DEADLOCK FALSE
