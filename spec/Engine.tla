------------------------------- MODULE Engine -------------------------------
(***************************************************************************)
(* The indicator engine (hexital/core/indicator.py, core/hexital.py) as a  *)
(* functional model over exact (unrounded) rationals.                      *)
(*                                                                         *)
(*  - Store/Lookup of a series on a candle, FindCalcIndex (resume after    *)
(*    the last candle that carries the name), the calculate loop (skip a   *)
(*    top-level reading that is present, fill everything else from the     *)
(*    resume index), calculate_index, purge (the transitively owned        *)
(*    names), recalculate -- "implementation-shaped";                      *)
(*  - Batch: every series of every indicator evaluated from scratch over   *)
(*    the definitional candle list -- what C01/C14 compare with.           *)
(* Each evaluation of a layer function is counted in a ghost `work` set    *)
(* (series name, position) for C07.                                        *)
(* The same layer functions F (Indicators.tla) that validate the recorded  *)
(* traces are the ones evaluated here.                                     *)
(***************************************************************************)
EXTENDS Props

RECURSIVE MinOfSeq(_)
MinOfSeq(s) == IF Len(s) = 1 THEN s[1] ELSE MinI(s[1], MinOfSeq(Tail(s)))

\* a concrete value for the results the spec leaves open ("any finite number")
Concrete(v) ==
  IF v.t = "any" THEN QV(Zero)
  ELSE IF v.t = "d" THEN DictV(v.k, [j \in 1..Len(v.v) |-> IF v.v[j].t = "any" THEN QV(Zero) ELSE v.v[j]])
  ELSE IF v.t = "sqrt" THEN [t |-> "sqrt", n |-> v.n, d |-> v.d]
  ELSE v

HasKey(c, s) == IF s.top THEN KVHas(c.ind, s.name) ELSE KVHas(c.sub, s.name)
Stored(c, s) == IF s.top THEN (IF KVHas(c.ind, s.name) THEN KVGet(c.ind, s.name) ELSE NoneV)
                ELSE (IF KVHas(c.sub, s.name) THEN KVGet(c.sub, s.name) ELSE NoneV)
Store(cs, i, s, v) ==
  IF s.top THEN [cs EXCEPT ![i].ind = KVPut(cs[i].ind, s.name, v)]
  ELSE [cs EXCEPT ![i].sub = KVPut(cs[i].sub, s.name, v)]

\* Indicator._find_calc_index, 1-based: first position to calculate
RECURSIVE LastWith(_, _, _)
LastWith(cs, name, i) ==      \* greatest position in 2..i whose candle carries the name (0 if none)
  IF i < 2 THEN 0
  ELSE IF KVHas(cs[i].ind, name) \/ KVHas(cs[i].sub, name) THEN i
  ELSE LastWith(cs, name, i - 1)
FindCalcIndex(cs, name) ==
  IF Len(cs) = 0 \/ ~(KVHas(cs[1].ind, name) \/ KVHas(cs[1].sub, name)) THEN 1
  \* (only the first candle carries it: resume after it; as shipped the scan fell back to the first
  \*  candle, which destroyed the helper series of a composite after a trim -- deviation resume_zero)
  ELSE LET k == LastWith(cs, name, Len(cs))
       IN IF k = 0 THEN (IF "resume_zero" \in Dev THEN 1 ELSE 2) ELSE k + 1

\* one pass over the series of an indicator at position i: every series that is due is given
\* its layer value computed from what is stored so far.  st = [cs, work]
RECURSIVE PassAt(_, _, _, _, _)
PassAt(st, ss, q, i, due) ==
  IF q > Len(ss) THEN st
  ELSE LET s == ss[q]
       IN IF ~due[q] THEN PassAt(st, ss, q + 1, i, due)
          ELSE LET v == Concrete(F(s, st.cs, i)[1])
               IN PassAt([cs |-> Store(st.cs, i, s, v), work |-> st.work \cup {<<s.name, i>>}],
                         ss, q + 1, i, due)

\* helpers that read one another at the same position (a managed series and the smoothing that
\* runs on it) settle in at most three passes
RECURSIVE Settle(_, _, _, _, _)
Settle(st, ss, i, due, n) ==
  LET nx == PassAt(st, ss, 1, i, due)
  IN IF n = 0 \/ nx.cs = st.cs THEN nx ELSE Settle(nx, ss, i, due, n - 1)

\* Indicator.calculate(): from the resume index of each series to the end; a top-level
\* reading that is present (not None) is never recomputed
RECURSIVE CalcFrom(_, _, _, _)
CalcFrom(st, ss, i, from) ==
  IF i > Len(st.cs) THEN st
  ELSE LET due == [q \in 1..Len(ss) |->
                     /\ i >= from[q]
                     /\ (ss[q].top => Stored(st.cs[i], ss[q]).t = "n")]
       IN CalcFrom(Settle(st, ss, i, due, 3), ss, i + 1, from)

Unrounded(ss) == [q \in 1..Len(ss) |-> [ss[q] EXCEPT !.rv = -1]]

Calculate(st, c) ==
  LET ss   == Unrounded(SeriesOf(c))
      from == [q \in 1..Len(ss) |-> FindCalcIndex(st.cs, ss[q].name)]
      lo   == IF Len(ss) = 0 THEN 1 ELSE MinOfSeq(from)
  IN CalcFrom(st, ss, lo, from)

\* calculate_index(i): everything at position i is recomputed, whatever is there
CalculateIndex(st, c, i) ==
  LET ss == Unrounded(SeriesOf(c))
  IN Settle(st, ss, i, [q \in 1..Len(ss) |-> TRUE], 3)

Purge(cs, c) == MgrPurge(cs, OwnedNames(c))

\* from scratch: all readings removed, then calculated
Batch(cs, cfgs) ==
  LET bare == [i \in 1..Len(cs) |-> [cs[i] EXCEPT !.ind = EmptyKV, !.sub = EmptyKV]]
      RECURSIVE Go(_, _)
      Go(st, k) == IF k > Len(cfgs) THEN st ELSE Go(Calculate(st, cfgs[k]), k + 1)
  IN Go([cs |-> bare, work |-> {}], 1).cs

\* equality of candle lists up to the insertion order of the reading dictionaries
KVSet(kv) == {<<kv.k[j], kv.v[j]>> : j \in 1..Len(kv.k)}
CsEq(a, b) ==
  /\ Len(a) = Len(b)
  /\ \A i \in 1..Len(a) : /\ Shell(a[i]) = Shell(b[i])
                           /\ KVSet(a[i].ind) = KVSet(b[i].ind) /\ KVSet(a[i].sub) = KVSet(b[i].sub)

\* the top-level column of one indicator
Column(cs, name) == [i \in 1..Len(cs) |-> IF KVHas(cs[i].ind, name) THEN KVGet(cs[i].ind, name) ELSE NoneV]
=============================================================================
