------------------------------ MODULE RatTest ------------------------------
EXTENDS Rat, TLC
ASSUME Add(Q(1,2), Q(1,3)) = Q(5,6)
ASSUME Sub(Q(1,2), Q(1,2)) = Zero
ASSUME Mul(Q(2,3), Q(3,4)) = Q(1,2)
ASSUME Div(Q(1,2), Q(-1,4)) = R(-2)
ASSUME Div(One, Zero) = NaR
ASSUME Add(NaR, One) = NaR
ASSUME Mul(R(100000), R(100000)) = NaR
ASSUME Add(R(MAXI), R(1)) = NaR
ASSUME Le(Q(1,3), Q(1,2)) /\ ~Le(Q(1,2), Q(1,3)) /\ Le(Q(-1,2), Q(-1,3)) /\ ~Le(Q(-1,3), Q(-1,2))
ASSUME Le(Q(-1,3), Zero) /\ Le(Zero, Zero) /\ ~Le(Zero, Q(-1,3)) /\ Le(Zero, Q(1,7))
ASSUME Le(Q(2147483646, 2147483647), Q(2147483645, 2147483646)) = FALSE
ASSUME Lt(Q(2147483645, 2147483646), Q(2147483646, 2147483647))
ASSUME Floor(Q(-7,2)) = -4 /\ Floor(Q(7,2)) = 3
ASSUME Min(Q(1,2),Q(1,3)) = Q(1,3) /\ Max(Q(1,2),Q(1,3)) = Q(1,2)
ASSUME SumR(<<R(1),Q(1,2),Q(1,2)>>) = R(2)
ASSUME RoundedTo(Q(12345,10000), 4) /\ ~RoundedTo(Q(1,3), 4) /\ RoundedTo(R(3), 0)
ASSUME Norm(6,-4) = <<-3,2>>
ASSUME PowR(Q(1,2),3) = Q(1,8)
ASSUME PrintT("rat ok")
=============================================================================
