SPECIFICATION Spec
CONSTANTS
  Dev <- DevResume
  MaxLen = 5
  MaxChunk = 3
  Lifes <- LifesQuick
  TFs <- TFsQuick
INVARIANT C15_Window
INVARIANT C15_Tail
CHECK_DEADLOCK FALSE
