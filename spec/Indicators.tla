----------------------------- MODULE Indicators -----------------------------
(***************************************************************************)
(* The indicator catalogue (hexital/indicators/*.py).                      *)
(*                                                                         *)
(* For a top-level configuration c (a record built from the constructor    *)
(* arguments) SeriesOf(c) is the list of series the indicator writes on    *)
(* the candles: its own reading and every helper (sub-indicator or managed *)
(* series) at any depth, with the names and wiring the code uses.  Each    *)
(* series s has a LAYER FUNCTION F(s, cs, i): the value the series must    *)
(* have at 1-based candle position i, as a function of STORED values only  *)
(* -- raw fields at <= i, helper readings at i, own/helper readings at     *)
(* i-1 -- i.e. a transcription of _calculate_reading.  F returns a         *)
(* sequence of acceptable values (usually one; two where the code's        *)
(* incremental form and the textbook window form are both right).          *)
(*                                                                         *)
(* The intended behaviour is specified; where the shipped code is known    *)
(* to differ the shipped variant is selected by a name in Dev.             *)
(***************************************************************************)
EXTENDS Analysis, TLC

\* --------------------------------------------------------------------------
\* reading helpers (1-based positions)
\* --------------------------------------------------------------------------
\* utils.candles.reading_period: enough history, probed at three sample points
ReadingPeriod(cs, p, r, i) ==
  LET q == p - 1
  IN /\ i >= 1 /\ i <= Len(cs)
     /\ i - q >= 1
     /\ Has(cs, i - q, r) /\ Has(cs, i - (q \div 2), r) /\ Has(cs, i, r)

\* sequence of the rationals X(j) for j = a..b (NaR where missing / inexact)
Win(cs, r, a, b) == [j \in 1..(b - a + 1) |-> X(cs, a + j - 1, r)]
\* utils.candles.candles_sum: None values are skipped
SumPresent(cs, r, a, b) ==
  LET vs == SelectSeq([j \in 1..(b - a + 1) |-> Rd(cs, a + j - 1, r)], LAMBDA v : v.t # "n")
  IN SumR([j \in 1..Len(vs) |-> NumOf(vs[j])])
CandlesSum(cs, p, r, i) == SumPresent(cs, r, MaxI(1, i - p + 1), i)

Self(s) == Ref(s.name)
HasPrev(cs, i, s) == Has(cs, i - 1, Self(s))
Prev(cs, i, s) == X(cs, i - 1, Self(s))

RECURSIVE ISqrt(_)
ISqrt(n) == IF n < 1 THEN 0 ELSE
  LET r == ISqrt(n - 1) IN IF (r + 1) * (r + 1) <= n THEN r + 1 ELSE r

One1(v) == <<v>>
Hundred == R(100)

\* dict with every field None
NoneDict(ks) == DictV(ks, [j \in 1..Len(ks) |-> NoneV])

\* a value to be compared through its square: sqrt(n/d)
SqrtV(r) == IF IsNaR(r) THEN NarV ELSE [t |-> "sqrt", n |-> r[1], d |-> r[2]]

\* --------------------------------------------------------------------------
\* moving averages
\* --------------------------------------------------------------------------
WindowMean(cs, r, p, i) == Div(SumR(Win(cs, r, i - p + 1, i)), R(p))

FSMA(s, cs, i) ==
  IF HasPrev(cs, i, s)
  THEN <<QV(Sub(Prev(cs, i, s), Div(Sub(X(cs, i - s.p, s.in), X(cs, i, s.in)), R(s.p)))),
         QV(WindowMean(cs, s.in, s.p, i))>>
  ELSE IF ReadingPeriod(cs, s.p, s.in, i)
    THEN One1(QV(Div(CandlesSum(cs, s.p, s.in, i), R(s.p))))
  ELSE One1(NoneV)

FEMA(s, cs, i) ==
  LET a == Div(s.m, R(s.p + 1))
  IN IF HasPrev(cs, i, s)
     THEN One1(QV(Add(Mul(a, X(cs, i, s.in)), Mul(Prev(cs, i, s), Sub(One, a)))))
     ELSE IF ReadingPeriod(cs, s.p, s.in, i)
       THEN One1(QV(Div(CandlesSum(cs, s.p, s.in, i), R(s.p))))
     ELSE One1(NoneV)

\* decay-weighted mean of the window ending at i (weights (1-a)^k, k = 0 newest)
RMASeed(cs, r, p, i) ==
  LET a  == Q(1, p)
      w  == [k \in 1..p |-> PowR(Sub(One, a), k - 1)]
      nu == SumR([k \in 1..p |-> Mul(w[k], X(cs, i - k + 1, r))])
  IN Div(nu, SumR(w))
\* as shipped: the window is the whole list up to i unless 0-based i >= p+1, and the
\* normalising weights use the absolute 0-based index as exponent
RMASeedShipped(cs, r, p, i) ==
  LET a   == Q(1, p)
      i0  == i - 1
      lo0 == IF i0 >= p + 1 THEN i0 - p + 1 ELSE 0
      n   == i0 - lo0 + 1
      nu  == SumR([k \in 1..n |-> Mul(PowR(Sub(One, a), k - 1), X(cs, i - k + 1, r))])
      de  == SumR([k \in 1..n |-> PowR(Sub(One, a), i0 - k + 1)])
  IN Div(nu, de)

FRMA(s, cs, i) ==
  LET a == Q(1, s.p)
  IN IF HasPrev(cs, i, s)
     THEN One1(QV(Add(Mul(a, X(cs, i, s.in)), Mul(Sub(One, a), Prev(cs, i, s)))))
     ELSE IF ReadingPeriod(cs, s.p, s.in, i)
       THEN IF "RMA_seed_absolute_index" \in Dev
            THEN One1(QV(RMASeedShipped(cs, s.in, s.p, i)))
            ELSE One1(QV(RMASeed(cs, s.in, s.p, i)))
     ELSE One1(NoneV)

WMAVal(cs, r, p, i) ==
  Div(SumR([k \in 1..p |-> Mul(X(cs, i - k + 1, r), R(p - k + 1))]), Q(p * (p + 1), 2))

FWMA(s, cs, i) ==
  IF HasPrev(cs, i, s) \/ ReadingPeriod(cs, s.p, s.in, i)
  THEN One1(QV(WMAVal(cs, s.in, s.p, i)))
  ELSE One1(NoneV)

FVWMA(s, cs, i) ==
  IF HasPrev(cs, i, s) \/ ReadingPeriod(cs, s.p, Ref("close"), i)
  THEN LET vol == CandlesSum(cs, s.p, Ref("volume"), i)
           pv  == SumR([k \in 1..s.p |-> Mul(X(cs, i - k + 1, Ref("close")),
                                              X(cs, i - k + 1, Ref("volume")))])
       \* no volume in the window: any finite value is accepted from the code (C09 leaves it open,
       \* C10 bounds it); the model takes the unweighted mean
       IN IF IsZero(vol) THEN <<QV(WindowMean(cs, Ref("close"), s.p, i)), AnyV>> ELSE One1(QV(Div(pv, vol)))
  ELSE One1(NoneV)

\* HMA: raw = 2*WMA(p/2) - WMA(p) (managed, unrounded); result = WMA(raw, isqrt p)
FHMAr(s, cs, i) ==
  IF Has(cs, i, Ref(s.h.wma))
  THEN One1(QV(Sub(Mul(R(2), X(cs, i, Ref(s.h.wmah))), X(cs, i, Ref(s.h.wma)))))
  ELSE One1(NoneV)
FHMA(s, cs, i) ==
  IF Has(cs, i, Ref(s.h.wma)) THEN One1(Rd(cs, i, Ref(s.h.hmas))) ELSE One1(NoneV)

\* --------------------------------------------------------------------------
\* volatility / range / channel / utility
\* --------------------------------------------------------------------------
TRVal(cs, i) ==
  LET h == cs[i].h  l == cs[i].l  pc == cs[i - 1].c
  IN Max(Sub(h, l), Max(Abs(Sub(h, pc)), Abs(Sub(l, pc))))

FTR(s, cs, i) ==
  IF ReadingPeriod(cs, 2, Ref("close"), i) THEN One1(QV(TRVal(cs, i))) ELSE One1(NoneV)

FATR(s, cs, i) ==
  IF HasPrev(cs, i, s)
  THEN One1(QV(Div(Add(Mul(Prev(cs, i, s), R(s.p - 1)), X(cs, i, s.in)), R(s.p))))
  ELSE IF ReadingPeriod(cs, s.p, s.in, i)
    THEN One1(QV(Div(CandlesSum(cs, s.p, s.in, i), R(s.p))))
  ELSE One1(NoneV)

\* rolling mean / variance update with the removed value (managed, unrounded)
SDParts(s, cs, i) ==
  LET x   == X(cs, i, s.in)
      inr == ReadingPeriod(cs, s.p + 1, s.in, i)
      rem == IF inr THEN X(cs, i - s.p, s.in) ELSE Zero
      om  == IF Has(cs, i - 1, RefF(s.h.data, "mean")) THEN X(cs, i - 1, RefF(s.h.data, "mean")) ELSE Zero
      nm  == Add(om, Div(Sub(x, rem), R(s.p)))
      ov  == IF Has(cs, i - 1, RefF(s.h.data, "variance"))
             THEN X(cs, i - 1, RefF(s.h.data, "variance")) ELSE Zero
      var == Add(ov, Div(Mul(Sub(x, rem), Add(Sub(x, nm), Sub(rem, om))), R(s.p)))
  IN [inr |-> inr, mean |-> nm, var |-> var]

\* population variance of the window of p inputs ending at i
WindowVar(cs, r, p, i) ==
  LET w  == Win(cs, r, i - p + 1, i)
      mu == Div(SumR(w), R(p))
  IN Div(SumR([k \in 1..p |-> Mul(Sub(w[k], mu), Sub(w[k], mu))]), R(p))

FSDdata(s, cs, i) ==
  IF ~Has(cs, i, s.in) THEN One1(NoneV)
  ELSE LET q == SDParts(s, cs, i)
       IN IF q.inr
          THEN <<DictV(<<"mean", "variance">>, <<QV(q.mean), QV(q.var)>>),
                 DictV(<<"mean", "variance">>, <<QV(WindowMean(cs, s.in, s.p, i)),
                                                 QV(WindowVar(cs, s.in, s.p, i))>>)>>
          ELSE One1(DictV(<<"mean", "variance">>, <<QV(q.mean), QV(q.var)>>))

FSD(s, cs, i) ==
  IF ~Has(cs, i, s.in) THEN One1(NoneV)
  ELSE LET q == SDParts(s, cs, i)
       IN IF q.inr THEN <<SqrtV(q.var), SqrtV(WindowVar(cs, s.in, s.p, i))>> ELSE One1(NoneV)

BBKeys == <<"BBL", "BBM", "BBU">>
FBB(s, cs, i) ==
  IF Has(cs, i, Ref(s.h.sma)) /\ Has(cs, i, Ref(s.h.sd))
  THEN LET m == X(cs, i, Ref(s.h.sma))  sd == X(cs, i, Ref(s.h.sd))
       IN One1(DictV(BBKeys, <<QV(Sub(m, Mul(sd, R(2)))), QV(m), QV(Add(m, Mul(sd, R(2))))>>))
  ELSE One1(NoneDict(BBKeys))

KCKeys == <<"lower", "band", "upper">>
FKC(s, cs, i) ==
  LET ve == Rd(cs, i, Ref(s.h.ema))  va == Rd(cs, i, Ref(s.h.atr))
      rdy == IF "truthy_zero" \in Dev THEN Truthy(ve) /\ Truthy(va) ELSE ve.t # "n" /\ va.t # "n"
  IN IF rdy
     THEN LET e == NumOf(ve)  a == NumOf(va)
          IN One1(DictV(KCKeys, <<QV(Sub(e, Mul(s.m, a))), QV(e), QV(Add(e, Mul(s.m, a)))>>))
     ELSE One1(NoneDict(KCKeys))

\* analysis.movement.highest/lowest over the current candle and `len` before it
HighestRaw(cs, f, len, i) == MaxR(Win(cs, Ref(f), MaxI(1, i - len), i))
LowestRaw(cs, f, len, i) == MinR(Win(cs, Ref(f), MaxI(1, i - len), i))

DCKeys == <<"DCL", "DCM", "DCU">>
FDonchian(s, cs, i) ==
  IF Has(cs, i - 1, RefF(s.name, "DCU")) \/ ReadingPeriod(cs, s.p, Ref("high"), i)
  THEN LET u == HighestRaw(cs, "high", s.p - 1, i)  l == LowestRaw(cs, "low", s.p - 1, i)
       IN One1(DictV(DCKeys, <<QV(l), QV(Div(Add(u, l), R(2))), QV(u)>>))
  ELSE One1(NoneDict(DCKeys))

FHL(s, cs, i) ==
  One1(DictV(<<"low", "high">>, <<QV(LowestRaw(cs, "low", s.p, i)), QV(HighestRaw(cs, "high", s.p, i))>>))

FHLA(s, cs, i) == One1(QV(Div(Add(cs[i].h, cs[i].l), R(2))))

\* Supertrend: bands HL2 +/- m*ATR that only ratchet in the trend direction
STParts(s, cs, i) ==
  LET va  == Rd(cs, i, Ref(s.h.atr))
      rdy == IF "truthy_zero" \in Dev THEN Truthy(va) ELSE va.t # "n"
      mid == Mul(s.m, NumOf(va))
      hl  == X(cs, i, Ref(s.h.hl))
      up0 == Add(hl, mid)
      lo0 == Sub(hl, mid)
      hp  == Has(cs, i - 1, RefF(s.h.data, "lower"))
      pu  == X(cs, i - 1, RefF(s.h.data, "upper"))
      pl  == X(cs, i - 1, RefF(s.h.data, "lower"))
      cl  == cs[i].c
      pd  == X(cs, i - 1, RefF(s.h.top, "direction"))
      bad == hp /\ (IsNaR(pu) \/ IsNaR(pl) \/ IsNaR(pd))
      dir == IF ~hp THEN 1
             ELSE IF bad THEN 0
             ELSE IF Gt(cl, pu) THEN 1
             ELSE IF Lt(cl, pl) THEN -1
             ELSE pd[1]
      keep == hp /\ ~bad /\ ~Gt(cl, pu) /\ ~Lt(cl, pl)
      lo  == IF keep /\ dir = 1 /\ ~IsNaR(lo0) /\ Lt(lo0, pl) THEN pl ELSE lo0
      up  == IF keep /\ dir = -1 /\ ~IsNaR(up0) /\ Gt(up0, pu) THEN pu ELSE up0
  IN [rdy |-> rdy, bad |-> bad \/ IsNaR(lo0), dir |-> dir, up |-> up, lo |-> lo]

STKeys == <<"trend", "direction", "long", "short">>
FSTdata(s, cs, i) ==
  LET q == STParts(s, cs, i)
  IN IF ~q.rdy THEN One1(NoneV)
     ELSE IF q.bad THEN One1(NarV)
     ELSE One1(DictV(<<"upper", "lower">>, <<QV(q.up), QV(q.lo)>>))
FST(s, cs, i) ==
  LET q == STParts(s, cs, i)
  IN IF ~q.rdy THEN One1(DictV(STKeys, <<NoneV, QV(R(1)), NoneV, NoneV>>))
     ELSE IF q.bad THEN One1(NarV)
     ELSE IF q.dir = 1
       THEN One1(DictV(STKeys, <<QV(q.lo), QV(R(1)), QV(q.lo), NoneV>>))
       ELSE One1(DictV(STKeys, <<QV(q.up), QV(R(-1)), NoneV, QV(q.up)>>))

FSDThres(s, cs, i) ==
  IF ~Has(cs, i, Ref(s.h.sd)) THEN One1(BoolV(FALSE))
  ELSE LET dx == Abs(Sub(X(cs, i, s.in), X(cs, i - 1, s.in)))
           th == Mul(X(cs, i, Ref(s.h.sd)), s.m)
       IN IF IsNaR(dx) \/ IsNaR(th) THEN One1(NarV)
          \* an exact tie is decided by float noise in the subtraction: either answer is accepted
          ELSE IF dx = th THEN <<BoolV(TRUE), BoolV(FALSE)>>
          ELSE One1(BoolV(Gt(dx, th)))

\* Python == between the counted value and a reading (True == 1, 1 == 1.0)
AsNum(v) == CASE v.t = "b" -> (IF v.b THEN One ELSE Zero) [] v.t = "q" -> NumOf(v) [] OTHER -> NaR
PyEq(a, b) == a.t \in {"b", "q"} /\ b.t \in {"b", "q"} /\ ~IsNaR(AsNum(a)) /\ AsNum(a) = AsNum(b)

FCounter(s, cs, i) ==
  LET pv == Rd(cs, i - 1, Self(s))
      c0 == IF Truthy(pv) /\ pv.t = "q" THEN NumOf(pv) ELSE Zero
      v  == Rd(cs, i, s.in)
  IN IF v.t = "n" THEN One1(QV(c0))
     ELSE IF v.t = "q" /\ IsNaR(NumOf(v)) THEN One1(NarV)
     ELSE IF PyEq(s.cv, v) THEN One1(QV(Add(c0, One))) ELSE One1(QV(Zero))

\* --------------------------------------------------------------------------
\* momentum / oscillators / volume
\* --------------------------------------------------------------------------
GLKeys == <<"gain", "loss">>
FRSIdata(s, cs, i) ==
  IF Has(cs, i - 1, Ref(s.h.top))
  THEN LET ch == Sub(X(cs, i - 1, s.in), X(cs, i, s.in))
           g  == IF IsNaR(ch) THEN NaR ELSE IF Lt(ch, Zero) THEN Neg(ch) ELSE Zero
           l  == IF IsNaR(ch) THEN NaR ELSE IF Gt(ch, Zero) THEN ch ELSE Zero
           pg == X(cs, i - 1, RefF(s.name, "gain"))
           pl == X(cs, i - 1, RefF(s.name, "loss"))
       IN One1(DictV(GLKeys, <<QV(Div(Add(Mul(pg, R(s.p - 1)), g), R(s.p))),
                               QV(Div(Add(Mul(pl, R(s.p - 1)), l), R(s.p)))>>))
  ELSE IF ReadingPeriod(cs, s.p + 1, s.in, i)
    THEN LET chs == [k \in 1..s.p |-> Sub(X(cs, i - s.p + k, s.in), X(cs, i - s.p + k - 1, s.in))]
         IN IF AnyNaR(chs) THEN One1(NarV)
            ELSE One1(DictV(GLKeys,
                   <<QV(Div(SumR([k \in 1..s.p |-> IF Gt(chs[k], Zero) THEN chs[k] ELSE Zero]), R(s.p))),
                     QV(Div(SumR([k \in 1..s.p |-> IF Lt(chs[k], Zero) THEN Neg(chs[k]) ELSE Zero]), R(s.p)))>>))
  ELSE One1(NoneV)

RSIOf(g, l) ==
  IF IsNaR(g) \/ IsNaR(l) THEN NarV
  ELSE IF IsZero(l) THEN QV(Hundred)
  ELSE QV(Sub(Hundred, Div(Hundred, Add(One, Div(g, l)))))

FRSI(s, cs, i) ==
  LET d == Rd(cs, i, Ref(s.h.data))
  IN IF d.t = "d"
     THEN One1(RSIOf(NumOf(DictField(d, "gain")), NumOf(DictField(d, "loss"))))
     ELSE One1(NoneV)

MACDLine(s, cs, i) == Sub(X(cs, i, Ref(s.h.fast)), X(cs, i, Ref(s.h.slow)))

\* the signal EMA runs on the MACD line: unrounded at i (the temporary entry the parent
\* writes before rounding), stored values before i
FMACDsig(s, cs, i) ==
  IF ~Has(cs, i, Ref(s.h.slow)) THEN One1(NoneV)
  ELSE LET a  == Q(2, s.p + 1)
           mi == MACDLine(s, cs, i)
           mr == RefF(s.h.top, "MACD")
       IN IF HasPrev(cs, i, s)
          THEN One1(QV(Add(Mul(a, mi), Mul(Prev(cs, i, s), Sub(One, a)))))
          ELSE IF i - (s.p - 1) >= 1 /\ Has(cs, i - (s.p - 1), mr) /\ Has(cs, i - ((s.p - 1) \div 2), mr)
            THEN One1(QV(Div(Add(SumPresent(cs, mr, MaxI(1, i - s.p + 1), i - 1), mi), R(s.p))))
          ELSE One1(NoneV)

MACDKeys == <<"MACD", "signal", "histogram">>
FMACD(s, cs, i) ==
  IF ~Has(cs, i, Ref(s.h.slow)) THEN One1(NoneDict(MACDKeys))
  ELSE LET mi == MACDLine(s, cs, i)
           sg == Rd(cs, i, Ref(s.h.sig))
       IN One1(DictV(MACDKeys, <<QV(mi), sg,
                 IF sg.t = "n" THEN NoneV ELSE QV(Sub(mi, NumOf(sg)))>>))

FROC(s, cs, i) ==
  IF HasPrev(cs, i, s) \/ ReadingPeriod(cs, s.p + 1, s.in, i)
  THEN LET b == X(cs, i - s.p, s.in)
       IN IF IsZero(b) THEN One1(AnyV)
          ELSE One1(QV(Mul(Div(Sub(X(cs, i, s.in), b), b), Hundred)))
  ELSE One1(NoneV)

StochVal(s, cs, i) ==
  LET lo == MinR(Win(cs, Ref("low"), i - s.p + 1, i))
      hi == MaxR(Win(cs, Ref("high"), i - s.p + 1, i))
  IN IF IsNaR(lo) \/ IsNaR(hi) THEN NarV
     ELSE IF hi = lo THEN AnyV
     ELSE QV(Mul(Div(Sub(X(cs, i, s.in), lo), Sub(hi, lo)), Hundred))

FSTOCHdata(s, cs, i) ==
  IF ReadingPeriod(cs, s.p, s.in, i)
  THEN One1(DictV(<<"stoch", "k">>, <<StochVal(s, cs, i), Rd(cs, i, Ref(s.h.k))>>))
  ELSE One1(NoneV)

SKKeys == <<"stoch", "k", "d">>
FSTOCH(s, cs, i) ==
  IF ReadingPeriod(cs, s.p, s.in, i)
  THEN One1(DictV(SKKeys, <<StochVal(s, cs, i), Rd(cs, i, Ref(s.h.k)), Rd(cs, i, Ref(s.h.d))>>))
  ELSE One1(NoneDict(SKKeys))

FTSIdata(s, cs, i) ==
  IF ReadingPeriod(cs, 2, s.in, i)
  THEN LET dx == Sub(X(cs, i, s.in), X(cs, i - 1, s.in))
       IN One1(DictV(<<"price", "abs_price">>, <<QV(dx), QV(Abs(dx))>>))
  ELSE One1(NoneV)

FTSI(s, cs, i) ==
  IF ~ReadingPeriod(cs, 2, s.in, i) THEN One1(NoneV)
  ELSE LET va == Rd(cs, i, Ref(s.h.abs2))
           rdy == IF "truthy_zero" \in Dev THEN Truthy(va) ELSE va.t # "n"
       IN IF ~rdy THEN One1(NoneV)
          ELSE IF va.t = "q" /\ va.n = 0 THEN One1(AnyV)
          ELSE One1(QV(Mul(Hundred, Div(X(cs, i, Ref(s.h.sec)), NumOf(va)))))

\* offset (0 = current candle) of the most recent extreme in the window of len candles
RECURSIVE BarScan(_, _, _, _, _, _, _)
BarScan(cs, f, i, len, k, best, dist) ==   \* k = offset being examined; hi = TRUE for highest
  IF k >= len \/ i - k < 1 THEN dist
  ELSE LET v == X(cs, i - k, Ref(f.n))
       IN IF k = 0 THEN BarScan(cs, f, i, len, 1, v, 0)
          ELSE IF (f.hi /\ Lt(best, v)) \/ (~f.hi /\ Gt(best, v))
            THEN BarScan(cs, f, i, len, k + 1, v, k)
            ELSE BarScan(cs, f, i, len, k + 1, best, dist)
HighestBarRaw(cs, n, len, i) == BarScan(cs, [n |-> n, hi |-> TRUE], i, len, 0, Zero, 0)
LowestBarRaw(cs, n, len, i) == BarScan(cs, [n |-> n, hi |-> FALSE], i, len, 0, Zero, 0)

ARKeys == <<"AROONU", "AROOND", "AROONOSC">>
FAROON(s, cs, i) ==
  IF ReadingPeriod(cs, s.p + 1, Ref("high"), i)
  THEN LET u == Mul(Q(s.p - HighestBarRaw(cs, "high", s.p + 1, i), s.p), Hundred)
           d == Mul(Q(s.p - LowestBarRaw(cs, "low", s.p + 1, i), s.p), Hundred)
       IN One1(DictV(ARKeys, <<QV(u), QV(d), QV(Sub(u, d))>>))
  ELSE One1(NoneDict(ARKeys))

\* ADX: directional movement against the previous candle (the first candle has none)
ADXMoves(cs, i) ==
  LET j  == IF "lookback_wraps" \in Dev /\ i = 1 THEN Len(cs) ELSE MaxI(1, i - 1)
      up == Sub(cs[i].h, cs[j].h)
      dn == Sub(cs[j].l, cs[i].l)
  IN [pos |-> IF Gt(up, dn) /\ Gt(up, Zero) THEN up ELSE Zero,
      neg |-> IF Gt(dn, up) /\ Gt(dn, Zero) THEN dn ELSE Zero]

ADXReady(s, cs, i) ==
  LET va == Rd(cs, i, Ref(s.h.atr))  vp == Rd(cs, i, Ref(s.h.pos))
  IN IF "truthy_zero" \in Dev THEN Truthy(va) /\ Truthy(vp) ELSE va.t # "n" /\ vp.t # "n"

ADXDI(s, cs, i) ==
  LET a == X(cs, i, Ref(s.h.atr))
  IN IF IsNaR(a) THEN [ok |-> FALSE, any |-> FALSE, p |-> NaR, n |-> NaR]
     ELSE IF IsZero(a) THEN [ok |-> TRUE, any |-> TRUE, p |-> NaR, n |-> NaR]
     ELSE LET mod == Div(Hundred, a)
          IN [ok |-> TRUE, any |-> FALSE, p |-> Mul(mod, X(cs, i, Ref(s.h.pos))),
              n |-> Mul(mod, X(cs, i, Ref(s.h.neg)))]

ADXDx(di) ==
  IF ~di.ok THEN NarV
  ELSE IF di.any THEN AnyV
  ELSE IF IsNaR(di.p) \/ IsNaR(di.n) THEN NarV
  ELSE IF IsZero(Add(di.p, di.n)) THEN AnyV
  ELSE QV(Div(Mul(Hundred, Abs(Sub(di.p, di.n))), Add(di.p, di.n)))

\* when the up-move and the down-move are exactly equal (and positive) the float subtraction
\* decides which of them counts: the three outcomes are all accepted
ADXMoveAlts(cs, i) ==
  LET j  == MaxI(1, i - 1)
      up == Sub(cs[i].h, cs[j].h)
      dn == Sub(cs[j].l, cs[i].l)
      mv == ADXMoves(cs, i)
  IN IF ~IsNaR(up) /\ up = dn /\ Gt(up, Zero) /\ "lookback_wraps" \notin Dev
     THEN <<mv, [pos |-> up, neg |-> Zero], [pos |-> Zero, neg |-> dn]>>
     ELSE <<mv>>

FADXdata(s, cs, i) ==
  LET ms == ADXMoveAlts(cs, i)
  IN IF ADXReady(s, cs, i)
     THEN [q \in 1..Len(ms) |-> DictV(<<"pos", "neg", "dx">>, <<QV(ms[q].pos), QV(ms[q].neg), ADXDx(ADXDI(s, cs, i))>>)]
     ELSE [q \in 1..Len(ms) |-> DictV(<<"pos", "neg">>, <<QV(ms[q].pos), QV(ms[q].neg)>>)]

ADXKeys == <<"ADX", "DM_Plus", "DM_Neg">>
FADX(s, cs, i) ==
  IF ~ADXReady(s, cs, i) THEN One1(NoneDict(ADXKeys))
  ELSE LET di == ADXDI(s, cs, i)
           vd == Rd(cs, i, Ref(s.h.dx))
           ax == IF "truthy_zero" \in Dev /\ ~Truthy(vd) THEN NoneV ELSE vd
       IN IF ~di.ok THEN One1(NarV)
          ELSE IF di.any THEN One1(DictV(ADXKeys, <<ax, AnyV, AnyV>>))
          ELSE One1(DictV(ADXKeys, <<ax, QV(di.p), QV(di.n)>>))

FOBV(s, cs, i) ==
  IF HasPrev(cs, i, s)
  THEN LET key == IF "OBV_volume_rule" \in Dev THEN "v" ELSE "c"
           same == IF key = "v" THEN cs[i].v = cs[i - 1].v ELSE cs[i].c = cs[i - 1].c
       IN IF same THEN One1(QV(Prev(cs, i, s)))
          ELSE IF Gt(cs[i].c, cs[i - 1].c) THEN One1(QV(Add(Prev(cs, i, s), cs[i].v)))
          ELSE One1(QV(Sub(Prev(cs, i, s), cs[i].v)))
  ELSE One1(QV(cs[i].v))

VWAPParts(s, cs, i) ==
  LET tp  == Div(Add(Add(cs[i].h, cs[i].l), cs[i].c), R(3))
      hp  == Has(cs, i - 1, RefF(s.h.data, "pv"))
      ppv == IF hp THEN X(cs, i - 1, RefF(s.h.data, "pv")) ELSE Zero
      pvl == IF hp THEN X(cs, i - 1, RefF(s.h.data, "vol")) ELSE Zero
  IN [pv |-> Add(ppv, Mul(cs[i].v, tp)), vol |-> Add(pvl, cs[i].v)]
FVWAPdata(s, cs, i) ==
  LET q == VWAPParts(s, cs, i)
  IN One1(DictV(<<"pv", "vol">>, <<QV(q.pv), QV(q.vol)>>))
FVWAP(s, cs, i) ==
  LET q == VWAPParts(s, cs, i)
  IN IF IsNaR(q.vol) THEN One1(NarV)
     ELSE IF IsZero(q.vol) THEN One1(QV(q.pv)) ELSE One1(QV(Div(q.pv, q.vol)))

\* --------------------------------------------------------------------------
\* dispatch
\* --------------------------------------------------------------------------
F(s, cs, i) ==
  CASE s.fk = "SMA" -> FSMA(s, cs, i)
    [] s.fk = "EMA" -> FEMA(s, cs, i)
    [] s.fk = "RMA" -> FRMA(s, cs, i)
    [] s.fk = "WMA" -> FWMA(s, cs, i)
    [] s.fk = "VWMA" -> FVWMA(s, cs, i)
    [] s.fk = "HMAr" -> FHMAr(s, cs, i)
    [] s.fk = "HMA" -> FHMA(s, cs, i)
    [] s.fk = "TR" -> FTR(s, cs, i)
    [] s.fk = "ATR" -> FATR(s, cs, i)
    [] s.fk = "SDdata" -> FSDdata(s, cs, i)
    [] s.fk = "SD" -> FSD(s, cs, i)
    [] s.fk = "BB" -> FBB(s, cs, i)
    [] s.fk = "KC" -> FKC(s, cs, i)
    [] s.fk = "DONCHIAN" -> FDonchian(s, cs, i)
    [] s.fk = "HL" -> FHL(s, cs, i)
    [] s.fk = "HLA" -> FHLA(s, cs, i)
    [] s.fk = "STdata" -> FSTdata(s, cs, i)
    [] s.fk = "ST" -> FST(s, cs, i)
    [] s.fk = "SDThres" -> FSDThres(s, cs, i)
    [] s.fk = "Counter" -> FCounter(s, cs, i)
    [] s.fk = "RSIdata" -> FRSIdata(s, cs, i)
    [] s.fk = "RSI" -> FRSI(s, cs, i)
    [] s.fk = "MACDsig" -> FMACDsig(s, cs, i)
    [] s.fk = "MACD" -> FMACD(s, cs, i)
    [] s.fk = "ROC" -> FROC(s, cs, i)
    [] s.fk = "STOCHdata" -> FSTOCHdata(s, cs, i)
    [] s.fk = "STOCH" -> FSTOCH(s, cs, i)
    [] s.fk = "TSIdata" -> FTSIdata(s, cs, i)
    [] s.fk = "TSI" -> FTSI(s, cs, i)
    [] s.fk = "AROON" -> FAROON(s, cs, i)
    [] s.fk = "ADXdata" -> FADXdata(s, cs, i)
    [] s.fk = "ADX" -> FADX(s, cs, i)
    [] s.fk = "OBV" -> FOBV(s, cs, i)
    [] s.fk = "VWAPdata" -> FVWAPdata(s, cs, i)
    [] s.fk = "VWAP" -> FVWAP(s, cs, i)
    [] s.fk = "Amorph" -> Eval(cs, [fn |-> s.h.fn, a |-> s.in, b |-> s.h.b, len |-> s.p, i |-> i - 1])

\* --------------------------------------------------------------------------
\* series descriptors
\*   [fk, name, top, rv, sl, kind, p, in, m, cv, h]
\*   top  : stored in Candle.indicators (TRUE) or Candle.sub_indicators (FALSE)
\*   rv   : decimals the stored value is rounded to; -1 = stored unrounded (managed data)
\*   sl   : extra tolerance in half rounding units (inputs consumed unrounded by the code)
\*   kind : the top-level kind that owns the series (for reporting)
\* --------------------------------------------------------------------------
NoH == [x |-> ""]
Ser(fk, name, top, rv, kind, p, in, m, h) ==
  [fk |-> fk, name |-> name, top |-> top, rv |-> rv, sl |-> 0, kind |-> kind,
   p |-> p, in |-> in, m |-> m, cv |-> NoneV, h |-> h]

SubRv == 4      \* sub-indicators are built with the default round_value

\* ATR with its TR helper, named after its owner
ATRSeries(name, top, rv, kind, p) ==
  <<Ser("TR", name \o "_TR", FALSE, SubRv, kind, 0, Ref(""), Zero, NoH),
    Ser("ATR", name, top, rv, kind, p, Ref(name \o "_TR"), Zero, NoH)>>

SDSeries(name, top, rv, kind, p, in) ==
  LET h == [data |-> name \o "_data"]
  IN <<Ser("SDdata", name \o "_data", FALSE, -1, kind, p, in, Zero, h),
       Ser("SD", name, top, rv, kind, p, in, Zero, h)>>

SeriesOf(c) ==
  LET nm == c.name  rv == c.rv  k == c.kind
  IN CASE k = "SMA" -> <<Ser("SMA", nm, TRUE, rv, k, c.p, c.in, Zero, NoH)>>
       [] k = "EMA" -> <<Ser("EMA", nm, TRUE, rv, k, c.p, c.in, <<c.m[1], c.m[2]>>, NoH)>>
       [] k = "RMA" -> <<Ser("RMA", nm, TRUE, rv, k, c.p, c.in, Zero, NoH)>>
       [] k = "WMA" -> <<Ser("WMA", nm, TRUE, rv, k, c.p, c.in, Zero, NoH)>>
       [] k = "VWMA" -> <<Ser("VWMA", nm, TRUE, rv, k, c.p, Ref("close"), Zero, NoH)>>
       [] k = "HMA" ->
            LET h == [wma |-> nm \o "_WMA", wmah |-> nm \o "_WMAh", hmar |-> nm \o "_HMAr",
                      hmas |-> nm \o "_HMAs"]
            IN <<Ser("WMA", h.wma, FALSE, SubRv, k, c.p, c.in, Zero, NoH),
                 Ser("WMA", h.wmah, FALSE, SubRv, k, c.p \div 2, c.in, Zero, NoH),
                 Ser("HMAr", h.hmar, FALSE, -1, k, c.p, c.in, Zero, h),
                 Ser("WMA", h.hmas, FALSE, SubRv, k, ISqrt(c.p), Ref(h.hmar), Zero, NoH),
                 Ser("HMA", nm, TRUE, rv, k, c.p, c.in, Zero, h)>>
       [] k = "TR" -> <<Ser("TR", nm, TRUE, rv, k, 0, Ref(""), Zero, NoH)>>
       [] k = "ATR" -> ATRSeries(nm, TRUE, rv, k, c.p)
       [] k = "STDEV" -> SDSeries(nm, TRUE, rv, k, c.p, c.in)
       [] k = "BBANDS" ->
            LET h == [sma |-> nm \o "_SMA", sd |-> nm \o "_STDEV"]
            IN SDSeries(h.sd, FALSE, SubRv, k, c.p, c.in)
               \o <<Ser("SMA", h.sma, FALSE, SubRv, k, c.p, c.in, Zero, NoH),
                    Ser("BB", nm, TRUE, rv, k, c.p, c.in, Zero, h)>>
       [] k = "KC" ->
            LET h == [atr |-> nm \o "_ATR", ema |-> nm \o "_EMA"]
            IN ATRSeries(h.atr, FALSE, SubRv, k, c.p)
               \o <<Ser("EMA", h.ema, FALSE, SubRv, k, c.p, c.in, R(2), NoH),
                    Ser("KC", nm, TRUE, rv, k, c.p, c.in, <<c.m[1], c.m[2]>>, h)>>
       [] k = "DONCHIAN" -> <<Ser("DONCHIAN", nm, TRUE, rv, k, c.p, Ref(""), Zero, NoH)>>
       [] k = "HL" -> <<Ser("HL", nm, TRUE, rv, k, c.p, Ref(""), Zero, NoH)>>
       [] k = "HLA" -> <<Ser("HLA", nm, TRUE, rv, k, 0, Ref(""), Zero, NoH)>>
       [] k = "Supertrend" ->
            LET h == [atr |-> nm \o "_atr", hl |-> nm \o "_HL", data |-> nm \o "_data", top |-> nm]
            IN ATRSeries(h.atr, FALSE, SubRv, k, c.p)
               \o <<Ser("HLA", h.hl, FALSE, SubRv, k, 0, Ref(""), Zero, NoH),
                    Ser("STdata", h.data, FALSE, -1, k, c.p, Ref(""), <<c.m[1], c.m[2]>>, h),
                    Ser("ST", nm, TRUE, rv, k, c.p, Ref(""), <<c.m[1], c.m[2]>>, h)>>
       [] k = "STDEVTHRES" ->
            LET h == [sd |-> nm \o "_stdev"]
            IN SDSeries(h.sd, FALSE, SubRv, k, c.p, c.in)
               \o <<Ser("SDThres", nm, TRUE, rv, k, c.p, c.in, <<c.m[1], c.m[2]>>, h)>>
       [] k = "Counter" ->
            <<[Ser("Counter", nm, TRUE, rv, k, 0, c.in, Zero, NoH) EXCEPT !.cv = c.cv]>>
       [] k = "RSI" ->
            LET h == [data |-> nm \o "_data", top |-> nm]
            IN <<Ser("RSIdata", h.data, FALSE, -1, k, c.p, c.in, Zero, h),
                 Ser("RSI", nm, TRUE, rv, k, c.p, c.in, Zero, h)>>
       [] k = "MACD" ->
            LET h == [fast |-> nm \o "_EMA_fast", slow |-> nm \o "_EMA_slow",
                      sig |-> nm \o "_signal_line", top |-> nm]
            IN <<Ser("EMA", h.fast, FALSE, SubRv, k, c.p, c.in, R(2), NoH),
                 Ser("EMA", h.slow, FALSE, SubRv, k, c.p2, c.in, R(2), NoH),
                 [Ser("MACDsig", h.sig, FALSE, SubRv, k, c.p3, c.in, Zero, h) EXCEPT !.sl = 1],
                 [Ser("MACD", nm, TRUE, rv, k, c.p3, c.in, Zero, h) EXCEPT !.sl = 1]>>
       [] k = "ROC" -> <<Ser("ROC", nm, TRUE, rv, k, c.p, c.in, Zero, NoH)>>
       [] k = "STOCH" ->
            LET h == [data |-> nm \o "_data", k |-> nm \o "_k", d |-> nm \o "_d"]
            IN <<Ser("SMA", h.k, FALSE, SubRv, k, c.p2, RefF(h.data, "stoch"), Zero, NoH),
                 Ser("STOCHdata", h.data, FALSE, -1, k, c.p, c.in, Zero, h),
                 Ser("SMA", h.d, FALSE, SubRv, k, c.p3, RefF(h.data, "k"), Zero, NoH),
                 Ser("STOCH", nm, TRUE, rv, k, c.p, c.in, Zero, h)>>
       [] k = "TSI" ->
            LET h == [data |-> nm \o "_data", fst |-> nm \o "_first", sec |-> nm \o "_second",
                      abs1 |-> nm \o "_abs_first", abs2 |-> nm \o "_abs_second"]
            IN <<Ser("TSIdata", h.data, FALSE, -1, k, c.p, c.in, Zero, h),
                 Ser("EMA", h.fst, FALSE, SubRv, k, c.p, RefF(h.data, "price"), R(2), NoH),
                 Ser("EMA", h.sec, FALSE, SubRv, k, c.p2, Ref(h.fst), R(2), NoH),
                 Ser("EMA", h.abs1, FALSE, SubRv, k, c.p, RefF(h.data, "abs_price"), R(2), NoH),
                 Ser("EMA", h.abs2, FALSE, SubRv, k, c.p2, Ref(h.abs1), R(2), NoH),
                 Ser("TSI", nm, TRUE, rv, k, c.p, c.in, Zero, h)>>
       [] k = "AROON" -> <<Ser("AROON", nm, TRUE, rv, k, c.p, Ref(""), Zero, NoH)>>
       [] k = "ADX" ->
            LET h == [atr |-> nm \o "_atr", data |-> nm \o "_data", pos |-> nm \o "_pos",
                      neg |-> nm \o "_neg", dx |-> nm \o "_dx"]
            IN ATRSeries(h.atr, FALSE, SubRv, k, c.p)
               \o <<Ser("RMA", h.pos, FALSE, SubRv, k, c.p, RefF(h.data, "pos"), Zero, NoH),
                    Ser("RMA", h.neg, FALSE, SubRv, k, c.p, RefF(h.data, "neg"), Zero, NoH),
                    Ser("ADXdata", h.data, FALSE, -1, k, c.p, Ref(""), Zero, h),
                    Ser("RMA", h.dx, FALSE, SubRv, k, c.p2, RefF(h.data, "dx"), Zero, NoH),
                    Ser("ADX", nm, TRUE, rv, k, c.p, Ref(""), Zero, h)>>
       [] k = "OBV" -> <<Ser("OBV", nm, TRUE, rv, k, 0, Ref(""), Zero, NoH)>>
       [] k = "VWAP" ->
            LET h == [data |-> nm \o "_data"]
            IN <<Ser("VWAPdata", h.data, FALSE, -1, k, c.p, Ref(""), Zero, h),
                 Ser("VWAP", nm, TRUE, rv, k, c.p, Ref(""), Zero, h)>>
       [] k = "Amorph" ->
            <<Ser("Amorph", nm, TRUE, rv, k, c.p, c.in, Zero, [fn |-> c.fn, b |-> c.in2])>>
       [] OTHER -> <<>>

\* number of earlier candles the indicator can need for one reading (its warm-up length);
\* C15's second clause is only claimed while that many predecessors survive the trim
Warm(c) ==
  LET k == c.kind
  IN CASE k \in {"SMA", "STDEV", "BBANDS", "ROC", "HL", "AROON", "STDEVTHRES"} -> c.p + 1
       [] k \in {"EMA", "RMA", "WMA", "VWMA", "DONCHIAN", "ATR", "KC", "Supertrend", "RSI"} -> c.p + 1
       [] k = "HMA" -> c.p + ISqrt(c.p) + 1
       [] k = "MACD" -> c.p2 + c.p3 + 1
       [] k = "STOCH" -> c.p + c.p2 + c.p3 + 1
       [] k = "TSI" -> c.p + c.p2 + 1
       [] k = "ADX" -> c.p + c.p2 + 1
       [] k = "Amorph" -> c.p + 12
       [] OTHER -> 2

\* number of earlier candles ONE new reading needs once the indicator is warmed up (C15: "one
\* predecessor for purely recursive indicators"; a window for the windowed ones).  Never below
\* what the formulas F read, so a claim is only made where the property makes one.
Look(c) ==
  LET k == c.kind
  IN CASE k \in {"EMA", "RMA", "ATR", "KC", "RSI", "MACD", "TSI", "ADX", "Supertrend", "OBV", "VWAP", "TR",
                 "Counter", "HLA"} -> 1
       [] k \in {"SMA", "WMA", "VWMA", "STDEV", "BBANDS", "ROC", "HL", "AROON", "DONCHIAN", "HMA"} -> c.p
       [] k = "STDEVTHRES" -> c.p + 1
       [] k = "STOCH" -> MaxI(c.p, MaxI(c.p2, c.p3))
       [] OTHER -> Warm(c)

\* the indicator is warmed up on candle x: its reading there is complete (Supertrend shows only
\* one of long / short by design)
WarmedOn(c, x) ==
  LET v == IF KVHas(x.ind, c.name) THEN KVGet(x.ind, c.name) ELSE NoneV
  IN IF v.t = "n" THEN FALSE
     ELSE IF v.t = "d" THEN \A q \in 1..Len(v.k) :
                               v.v[q].t # "n" \/ (c.kind = "Supertrend" /\ v.k[q] \in {"long", "short"})
     ELSE TRUE

\* every name the indicator writes (purge must remove exactly these)
OwnedNames(c) == LET ss == SeriesOf(c) IN {ss[j].name : j \in 1..Len(ss)}

\* the name the code derives from the parameters (integer-parameter kinds)
DefaultName(c) ==
  LET k == c.kind
  IN CASE k \in {"SMA", "EMA", "RMA", "WMA", "VWMA", "HMA", "ATR", "STDEV", "BBANDS", "RSI",
                 "STOCH", "AROON", "VWAP", "Supertrend", "STDEVTHRES"} ->
              (CASE k = "STDEV" -> "STDEV" [] OTHER -> k) \o "_" \o ToString(c.p)
       [] k = "DONCHIAN" -> "DONCHIAN_" \o ToString(c.p)
       [] k = "HL" -> "HL_" \o ToString(c.p)
       [] k \in {"TR", "OBV", "HLA", "ROC"} -> k
       [] k = "MACD" -> "MACD_" \o ToString(c.p) \o "_" \o ToString(c.p2) \o "_" \o ToString(c.p3)
       [] k = "TSI" -> "TSI_" \o ToString(c.p) \o "_" \o ToString(c.p \div 2)
       [] k = "ADX" -> "ADX_" \o ToString(c.p) \o "_" \o ToString(c.p2)
       [] OTHER -> c.name

=============================================================================
