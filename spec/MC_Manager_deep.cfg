SPECIFICATION Spec
CONSTANTS
  TF = 3
  MaxLen = 6
  MaxChunk = 3
  Gaps = {0, 1, 2, 3, 4, 7}
  Offsets = {0, 1, 3}
  Lifes <- LifesAll
  EmitOn = FALSE
INVARIANT NoError
INVARIANT Master
INVARIANT C03_Resample
INVARIANT C12_Fill
INVARIANT C11_HA
INVARIANT C15_Window
INVARIANT NoReadings
CHECK_DEADLOCK FALSE
