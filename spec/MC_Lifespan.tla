----------------------------- MODULE MC_Lifespan -----------------------------
(***************************************************************************)
(* C15 at design level: the engine running on a candle list that a         *)
(* lifespan trims from the front.                                          *)
(*                                                                         *)
(* One indicator from a menu of real kinds (purely recursive: EMA, ATR,    *)
(* RSI, OBV; a composite of two helpers: KC; windowed: SMA, STOCH), one    *)
(* candle per time unit or with gaps, with and without a collapsing        *)
(* timeframe, every stream of a small alphabet, every composition into     *)
(* chunks of 1..MaxChunk candles.  After each append the manager trims,    *)
(* then the indicator is calculated (FindCalcIndex, skip-present, resume)  *)
(* exactly as Engine.tla transcribes the code.                             *)
(*                                                                         *)
(* C15_Window : the retained candles are the window of the definitional    *)
(*              list (TrimDef over Resample/Fill).                         *)
(* C15_Tail   : while the property's precondition held at every append     *)
(*              (Props!SurvOK: Look(c) survivors in front of the first new *)
(*              candle, the last of them warmed up) the readings on the    *)
(*              retained candles are those of the SAME stream calculated   *)
(*              without any trimming.                                      *)
(* Deviation resume_zero (the resume index falls back to the first candle  *)
(* when only that one carries the name -- as shipped before the repair)    *)
(* must violate C15_Tail: MC_Lifespan_dev.cfg.                             *)
(***************************************************************************)
EXTENDS Engine, TLC, FiniteSets

CONSTANTS MaxLen, MaxChunk, Lifes, TFs
DevResume == {"resume_zero"}
LifesQuick == {2}
LifesMid == {2, 3}
LifesFull == {1, 2, 3, 4}
TFsQuick == {0, 2}
TFsFull == {0, 2, 3}

Cfg(kind, name, p, p2, p3) ==
  [kind |-> kind, name |-> name, mg |-> 1, rv |-> -1, p |-> p, p2 |-> p2, p3 |-> p3,
   in |-> Ref("close"), m |-> <<2, 1>>, cv |-> NoneV, fn |-> "", in2 |-> Ref("")]
Menu == << Cfg("EMA", "EMA_2", 2, 0, 0), Cfg("ATR", "ATR_2", 2, 0, 0), Cfg("RSI", "RSI_2", 2, 0, 0),
           Cfg("KC", "KC_2", 2, 0, 0), Cfg("OBV", "OBV", 0, 0, 0), Cfg("SMA", "SMA_2", 2, 0, 0),
           Cfg("STOCH", "STOCH_2", 2, 2, 2) >>

\* candle alphabet: rising, falling with a wide range, flat without volume -- (o, h, l, c, v)
Sym == << <<10, 12, 9, 11, 2>>, <<14, 14, 8, 9, 3>>, <<11, 11, 11, 11, 0>> >>
MkSym(k, ts) == MkCandle(ts, R(Sym[k][1]), R(Sym[k][2]), R(Sym[k][3]), R(Sym[k][4]), R(Sym[k][5]))

VARIABLES mcfg, ind, raw, st, ok15, trimmed
vars == <<mcfg, ind, raw, st, ok15, trimmed>>

Init ==
  /\ \E tf \in TFs : \E life \in Lifes : mcfg = MkCfg(tf, FALSE, life, FALSE)
  /\ ind \in 1..Len(Menu)
  /\ raw = <<>>
  /\ st = [cs |-> <<>>, work |-> {}]
  /\ ok15 = TRUE
  /\ trimmed = FALSE

\* how many candles of pre are gone from the front of post (by timestamp, as the harness measures it)
Dropped(pre, post) ==
  IF pre = <<>> THEN 0
  ELSE IF post = <<>> THEN Len(pre)
  ELSE Cardinality({i \in 1..Len(pre) : pre[i].ts < post[1].ts})

AppendStep ==
  \E n \in 1..MaxChunk : \E ks \in [1..n -> 1..Len(Sym)] : \E g \in {1, 2} :
    /\ Len(raw) + n <= MaxLen
    /\ LET t0  == IF raw = <<>> THEN 0 ELSE Last(raw).ts
           new == [q \in 1..n |-> MkSym(ks[q], t0 + g + (q - 1))]
           m   == MgrAppend(st.cs, new, mcfg)
           c   == Menu[ind]
           nx  == Calculate([cs |-> m.cs, work |-> {}], c)
           dr  == Dropped(st.cs, m.cs)
       IN /\ m.ok
          /\ raw' = raw \o new
          /\ st' = nx
          /\ trimmed' = (trimmed \/ dr > 0)
          /\ ok15' = (ok15 /\ ((trimmed \/ dr > 0) => SurvOK(c, st.cs, m.cs, dr)))
    /\ UNCHANGED <<mcfg, ind>>

Next == AppendStep
Spec == Init /\ [][Next]_vars

NoLife == [mcfg EXCEPT !.life = -1]

C15_Window == CoreSeq(st.cs) = ShownDef(raw, mcfg)

\* the same stream, never trimmed, calculated in one go
Untrimmed == Batch(MgrNew(raw, NoLife).cs, <<Menu[ind]>>)

C15_Tail ==
  ok15 =>
    LET u   == Untrimmed
        off == Len(u) - Len(st.cs)
        nm  == Menu[ind].name
    IN /\ off >= 0
       /\ \A i \in 1..Len(st.cs) :
             (IF KVHas(st.cs[i].ind, nm) THEN KVGet(st.cs[i].ind, nm) ELSE NoneV)
               = (IF KVHas(u[off + i].ind, nm) THEN KVGet(u[off + i].ind, nm) ELSE NoneV)

\* non-vacuity: the claim is made on trimmed, warmed-up lists with exactly Look(c) survivors
Witness == ~(ok15 /\ trimmed /\ Len(st.cs) >= 3 /\ WarmedOn(Menu[ind], st.cs[Len(st.cs)]))
=============================================================================
