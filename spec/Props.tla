------------------------------- MODULE Props -------------------------------
(***************************************************************************)
(* State predicates of the properties, evaluated on observed (or model)    *)
(* states: C09 (once a field has a value it keeps having one) and C10      *)
(* (structural relations between outputs).  TopCheck returns "ok" or the   *)
(* name of the violated clause.  A relation whose operands are not exactly *)
(* known is skipped ("ok"), never failed.                                  *)
(***************************************************************************)
EXTENDS Indicators

TopAt(c, cs, i) ==
  IF i < 1 \/ i > Len(cs) THEN NoneV
  ELSE IF KVHas(cs[i].ind, c.name) THEN KVGet(cs[i].ind, c.name) ELSE NoneV

Fld(v, f) == IF v.t = "d" THEN DictField(v, f) ELSE NoneV
Nq(v) == NumOf(v)

\* one unit of the configured rounding plus quantisation slack
\* (beyond 5 decimals the unit of 10^-5 is used: finer ones do not fit 32-bit sums)
Unit(rv) == IF rv < 0 THEN Q(2, 1000000)
            ELSE IF rv > 5 THEN Q(12, 1000000)
            ELSE Add(Q(1, Pow10(rv)), Q(2, 1000000))

Known(a) == ~IsNaR(a)
\* a <= b + k units  (true when an operand is unknown)
LeU(a, b, rv, k) ==
  LET hi == Add(b, Mul(R(k), Unit(rv)))
  IN (Known(a) /\ Known(b) /\ Known(hi)) => Le(a, hi)
EqU(a, b, rv, k) == LeU(a, b, rv, k) /\ LeU(b, a, rv, k)
InRangeK(v, lo, hi, rv, k) == (v.t = "q") => (LeU(R(lo), Nq(v), rv, k) /\ LeU(Nq(v), R(hi), rv, k))
InRange(v, lo, hi, rv) == InRangeK(v, lo, hi, rv, 1)

\* exemptions of the gap rule: exactly one of Supertrend's long/short is set (C10)
GapExempt(c, f) == c.kind = "Supertrend" /\ f \in {"long", "short"}

Gap(c, pv, v) ==
  IF pv.t = "n" THEN FALSE
  ELSE IF pv.t = "d"
    THEN IF v.t # "d" THEN \E q \in 1..Len(pv.k) : pv.v[q].t # "n"
         ELSE \E q \in 1..Len(pv.k) :
                 /\ pv.v[q].t # "n" /\ ~GapExempt(c, pv.k[q]) /\ DictField(v, pv.k[q]).t = "n"
  ELSE v.t = "n"

\* smallest / largest exactly known input over positions a..b (NaR if some input unknown)
InMin(cs, r, a, b) == LET w == Win(cs, r, a, b) IN IF AnyNaR(w) THEN NaR ELSE MinR(w)
InMax(cs, r, a, b) == LET w == Win(cs, r, a, b) IN IF AnyNaR(w) THEN NaR ELSE MaxR(w)
\* first position at which the reference has a value
FirstHas(cs, r, i) == IF \E k \in 1..i : Has(cs, k, r)
                      THEN CHOOSE k \in 1..i : Has(cs, k, r) /\ \A q \in 1..(k - 1) : ~Has(cs, q, r)
                      ELSE 0

Struct(c, cs, i) ==
  LET v  == TopAt(c, cs, i)
      pv == TopAt(c, cs, i - 1)
      k  == c.kind
      rv == c.rv
  IN IF v.t = "n" THEN "ok"
     ELSE CASE k = "RSI" -> IF InRange(v, 0, 100, rv) THEN "ok" ELSE "struct_range"
       [] k = "STOCH" ->
            \* %K and %D are incremental SMAs kept at the helpers' 4 decimals: the rounding
            \* error they accumulate (half a unit per step) is allowed for
            IF InRange(Fld(v, "stoch"), 0, 100, rv)
               /\ InRangeK(Fld(v, "k"), 0, 100, MinI(rv, SubRv), 1 + i)
               /\ InRangeK(Fld(v, "d"), 0, 100, MinI(rv, SubRv), 1 + i) THEN "ok" ELSE "struct_range"
       [] k = "AROON" ->
            IF ~(InRange(Fld(v, "AROONU"), 0, 100, rv) /\ InRange(Fld(v, "AROOND"), 0, 100, rv))
            THEN "struct_range"
            ELSE IF Fld(v, "AROONOSC").t = "q"
                    /\ ~EqU(Nq(Fld(v, "AROONOSC")), Sub(Nq(Fld(v, "AROONU")), Nq(Fld(v, "AROOND"))), rv, 2)
              THEN "struct_identity" ELSE "ok"
       [] k = "ADX" ->
            \* C10 names ADX itself; the two directional lines are only required to be non-negative: the
            \* library seeds the smoothed movement one candle later than the true range, so right after a
            \* flat opening +DI can exceed 100 for a few candles (observed: 110; the definitional column
            \* in Defs.tla agrees with that seeding)
            IF InRange(Fld(v, "ADX"), 0, 100, rv) /\ InRange(Fld(v, "DM_Plus"), 0, 1000, rv)
               /\ InRange(Fld(v, "DM_Neg"), 0, 1000, rv) THEN "ok" ELSE "struct_range"
       [] k = "TSI" -> IF InRange(v, -100, 100, rv) THEN "ok" ELSE "struct_range"
       [] k = "TR" ->
            IF v.t = "q" /\ LeU(Sub(cs[i].h, cs[i].l), Nq(v), rv, 1) /\ LeU(Zero, Nq(v), rv, 0)
            THEN "ok" ELSE "struct_range"
       [] k \in {"ATR", "STDEV"} ->
            IF v.t = "q" /\ LeU(Zero, Nq(v), rv, 0) THEN "ok" ELSE "struct_range"
       [] k = "BBANDS" ->
            IF LeU(Nq(Fld(v, "BBL")), Nq(Fld(v, "BBM")), rv, 1)
               /\ LeU(Nq(Fld(v, "BBM")), Nq(Fld(v, "BBU")), rv, 1) THEN "ok" ELSE "struct_order"
       [] k = "KC" ->
            IF LeU(Nq(Fld(v, "lower")), Nq(Fld(v, "band")), rv, 1)
               /\ LeU(Nq(Fld(v, "band")), Nq(Fld(v, "upper")), rv, 1) THEN "ok" ELSE "struct_order"
       [] k = "DONCHIAN" ->
            IF Fld(v, "DCU").t = "n" THEN "ok"
            ELSE IF ~(LeU(Nq(Fld(v, "DCL")), Nq(Fld(v, "DCM")), rv, 1)
                      /\ LeU(Nq(Fld(v, "DCM")), Nq(Fld(v, "DCU")), rv, 1)) THEN "struct_order"
            ELSE IF ~(LeU(Nq(Fld(v, "DCL")), cs[i].l, rv, 1) /\ LeU(cs[i].h, Nq(Fld(v, "DCU")), rv, 1))
              THEN "struct_enclose"
            ELSE IF ~EqU(Nq(Fld(v, "DCM")),
                         Div(Add(Nq(Fld(v, "DCU")), Nq(Fld(v, "DCL"))), R(2)), rv, 1)
              THEN "struct_identity" ELSE "ok"
       [] k = "MACD" ->
            IF Fld(v, "histogram").t = "q" /\ Fld(v, "signal").t = "q" /\ Fld(v, "MACD").t = "q"
               /\ ~EqU(Nq(Fld(v, "histogram")), Sub(Nq(Fld(v, "MACD")), Nq(Fld(v, "signal"))), rv, 2)
            THEN "struct_identity" ELSE "ok"
       [] k = "Supertrend" ->
            LET d == Fld(v, "direction")  tr == Fld(v, "trend")
                lg == Fld(v, "long")  sh == Fld(v, "short")
            IN IF ~(d.t = "q" /\ d.d = 1 /\ d.n \in {1, -1}) THEN "struct_direction"
               ELSE IF tr.t = "n" THEN (IF lg.t = "n" /\ sh.t = "n" THEN "ok" ELSE "struct_exclusive")
               ELSE IF (lg.t = "n") = (sh.t = "n") THEN "struct_exclusive"
               ELSE IF d.n = 1 /\ (lg.t # "q" \/ ~SameV(lg, tr)) THEN "struct_exclusive"
               ELSE IF d.n = -1 /\ (sh.t # "q" \/ ~SameV(sh, tr)) THEN "struct_exclusive"
               ELSE "ok"
       [] k \in {"SMA", "WMA"} ->
            \* SMA is updated incrementally from its own ROUNDED previous value, so the error
            \* the configured rounding introduces accumulates by up to half a unit per step
            LET steps == IF k = "SMA" THEN i - FirstHas(cs, Ref(c.name), i) ELSE 0
            IN IF i - c.p + 1 < 1 THEN "ok"        \* window cut by a lifespan: cannot be judged
               ELSE IF v.t = "q"
                  /\ LeU(InMin(cs, c.in, i - c.p + 1, i), Nq(v), rv, 1 + steps)
                  /\ LeU(Nq(v), InMax(cs, c.in, i - c.p + 1, i), rv, 1 + steps)
               THEN "ok" ELSE "struct_between"
       [] k = "VWMA" ->
            IF i - c.p + 1 < 1 THEN "ok"
            ELSE IF v.t = "q"
               /\ LeU(InMin(cs, Ref("close"), i - c.p + 1, i), Nq(v), rv, 1)
               /\ LeU(Nq(v), InMax(cs, Ref("close"), i - c.p + 1, i), rv, 1) THEN "ok" ELSE "struct_between"
       [] k \in {"EMA", "RMA"} ->
            LET f == FirstHas(cs, c.in, i)
            IN IF TopAt(c, cs, 1).t # "n" THEN "ok"   \* history cut by a lifespan: cannot be judged
               ELSE IF v.t = "q" /\ f >= 1
                  /\ LeU(InMin(cs, c.in, f, i), Nq(v), rv, 1)
                  /\ LeU(Nq(v), InMax(cs, c.in, f, i), rv, 1) THEN "ok" ELSE "struct_between"
       [] k = "OBV" ->
            IF v.t # "q" THEN "struct_type"
            ELSE IF pv.t # "q" THEN "ok"
            ELSE LET df == Abs(Sub(Nq(v), Nq(pv)))
                 IN IF IsNaR(df) \/ df = Zero \/ EqU(df, cs[i].v, rv, 1) THEN "ok" ELSE "struct_step"
       [] k = "Counter" ->
            IF ~(v.t = "q" /\ v.d = 1 /\ v.n >= 0 /\ Exact(v)) THEN "struct_type"
            ELSE IF pv.t = "q" /\ ~(v.n = 0 \/ v.n = pv.n + 1 \/ v.n = pv.n) THEN "struct_step"
            ELSE IF pv.t # "q" /\ v.n > 1 THEN "struct_step"
            ELSE "ok"
       [] OTHER -> "ok"

\* evaluated on every observed state, for every registered indicator and every candle -- also on readings
\* the call did not touch (C10: EVERY numeric reading is rounded to the indicator's round_value)
TopCheck(c, cs, i) ==
  IF c.kind = "Amorph" THEN "ok"
  ELSE IF Gap(c, TopAt(c, cs, i - 1), TopAt(c, cs, i)) THEN "gap"
  ELSE IF c.rv >= 0 /\ ~RoundedV(TopAt(c, cs, i), c.rv) THEN "round"
  ELSE Struct(c, cs, i)

\* C15, second clause: the look-back precondition at one append.  pre is the candle list of one
\* manager before the call, mid the list the manager hands to the indicators (after collapsing,
\* converting and trimming, readings carried over -- wiped where a bucket was merged into again),
\* drop the number of candles trimmed from the front.
\* first position of mid whose candle is not an unchanged survivor of the pre-state: new candles, and
\* a forming bucket that was merged into again (even when the merge left its OHLCV as it was)
FirstNew(pre, mid, drop) ==
  LET S == {p \in 1..Len(mid) : p + drop > Len(pre) \/ pre[p + drop] # mid[p]}
  IN IF S = {} THEN Len(mid) + 1 ELSE CHOOSE p \in S : \A p2 \in S : p <= p2

\* the property's own wording: each newly added candle has its look-back inside the window that
\* survives -- Look(c) survivors in front of the first new candle, the last of them warmed up
SurvOK(c, pre, mid, drop) ==
  LET f == FirstNew(pre, mid, drop)
  IN \/ f > Len(mid)
     \/ /\ f >= 2 /\ f - 1 >= Look(c)
        /\ f - 1 + drop <= Len(pre)
        /\ WarmedOn(c, pre[f - 1 + drop])

=============================================================================
