------------------------------- MODULE Candle -------------------------------
(***************************************************************************)
(* Candles (hexital/core/candle.py) and the time axis                      *)
(* (hexital/utils/timeframe.py).                                           *)
(*                                                                         *)
(* A candle is the record                                                  *)
(*   [ts, o, h, l, c, v, tag, cl, ind, sub]                                *)
(* ts  : integer seconds on a zone-free axis (offset from a per-trace base *)
(*       that is a multiple of every timeframe in play); NoTs = no stamp   *)
(* o..v: exact rationals (Rat)                                             *)
(* tag : "" (None) or the candlestick type's name                          *)
(* cl  : <<>> or <<[o,h,l,c,v,ts]>>  -- Candle.clean_values                *)
(* ind, sub : key/value lists [k |-> Seq(STRING), v |-> Seq(Val)]          *)
(*       -- Candle.indicators / Candle.sub_indicators in insertion order   *)
(***************************************************************************)
EXTENDS Rat, Buckets

NoTs == -2000000000
HAName == "Heikin-Ashi"

EmptyKV == [k |-> <<>>, v |-> <<>>]

MkCandle(ts, o, h, l, c, v) ==
  [ts |-> ts, o |-> o, h |-> h, l |-> l, c |-> c, v |-> v,
   tag |-> "", cl |-> <<>>, ind |-> EmptyKV, sub |-> EmptyKV]

\* the OHLCV core of a candle, without readings / tag / clean values
Core(c) == [ts |-> c.ts, o |-> c.o, h |-> c.h, l |-> c.l, c |-> c.c, v |-> c.v]
CoreSeq(cs) == [i \in 1..Len(cs) |-> Core(cs[i])]
\* everything the candle manager owns (readings are owned by the indicators)
Shell(c) == [ts |-> c.ts, o |-> c.o, h |-> c.h, l |-> c.l, c |-> c.c, v |-> c.v,
             tag |-> c.tag, cl |-> c.cl]
ShellSeq(cs) == [i \in 1..Len(cs) |-> Shell(cs[i])]

WellFormed(c) ==
  /\ ~IsNaR(c.o) /\ ~IsNaR(c.h) /\ ~IsNaR(c.l) /\ ~IsNaR(c.c) /\ ~IsNaR(c.v)
  /\ Le(c.l, c.o) /\ Le(c.l, c.c) /\ Le(c.o, c.h) /\ Le(c.c, c.h) /\ Le(Zero, c.v)

(***************************************************************************)
(* Geometry (Candle properties)                                            *)
(***************************************************************************)
Positive(c) == Lt(c.o, c.c)
Negative(c) == Gt(c.o, c.c)
RealBody(c) == Abs(Sub(c.o, c.c))
ShadowUpper(c) == IF Positive(c) THEN Abs(Sub(c.h, c.c)) ELSE Abs(Sub(c.h, c.o))
ShadowLower(c) == IF Positive(c) THEN Abs(Sub(c.l, c.o)) ELSE Abs(Sub(c.l, c.c))
HighLow(c) == Abs(Sub(c.h, c.l))

(***************************************************************************)
(* Candle.save_clean_values / recover_clean_values / reset_candle / merge  *)
(***************************************************************************)
SaveClean(c) ==
  [c EXCEPT !.cl = <<[o |-> c.o, h |-> c.h, l |-> c.l, c |-> c.c, v |-> c.v, ts |-> c.ts]>>]

Recover(c) ==
  IF c.cl = <<>> THEN c
  ELSE LET s == c.cl[1]
       IN [c EXCEPT !.o = s.o, !.h = s.h, !.l = s.l, !.c = s.c, !.v = s.v, !.ts = s.ts]

Reset(c) == [c EXCEPT !.ind = EmptyKV, !.sub = EmptyKV, !.tag = ""]

\* merge candle b into a: raw values recovered first, every reading and the tag wiped
Merge(a, b) ==
  LET r == Recover(a)
  IN Reset([r EXCEPT !.h = Max(r.h, b.h), !.l = Min(r.l, b.l),
                      !.v = Add(r.v, b.v), !.c = b.c, !.cl = <<>>])

\* the raw (pre-conversion) OHLCV of a shown candle
CleanCore(c) == Core(Recover(c))

(***************************************************************************)
(* Time axis: zone-free integer arithmetic (\div floors, % is >= 0)        *)
(***************************************************************************)
UnitSecs(u) == CASE u = "S" -> 1 [] u = "T" -> 60 [] u = "H" -> 3600 [] u = "D" -> 86400
ValidUnit(u) == u \in {"S", "T", "H", "D"}
TfSecs(u, n) == n * UnitSecs(u)

\* RoundDown, OnTf, Bucket and the collapse walk's branch/step on integers: Buckets.tla

=============================================================================
