SPECIFICATION Spec
CONSTANTS
  TF = 3
  MaxLen = 5
  MaxChunk = 3
  Gaps = {0, 1, 2, 4, 7}
INVARIANT NoError
INVARIANT C08_MemberEqStandalone
INVARIANT C08_AtConstruction
INVARIANT C08_BaseKeepsOHLCV
CHECK_DEADLOCK FALSE
