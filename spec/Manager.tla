------------------------------ MODULE Manager ------------------------------
(***************************************************************************)
(* The candle manager (hexital/core/candle_manager.py,                     *)
(* core/candlestick_type.py, candlesticks/heikinashi.py).                  *)
(*                                                                         *)
(* Two descriptions of the same thing:                                     *)
(*  - implementation-shaped: CollapseWalk (the seven-way branch in code    *)
(*    order, re-run over the already collapsed list on every append),      *)
(*    FillWalk, ConvIndex/Convert (resume after the last tagged candle),   *)
(*    Trim;  MgrTasks == Trim o Convert o Collapse(+Fill)                  *)
(*  - definitional: Resample, FillDef, HADef, TrimDef                      *)
(* The properties C03/C11/C12/C15 say the first refines the second under   *)
(* every append schedule (checked in MC_Manager); trace validation and     *)
(* behaviour generation use the same operators.                            *)
(*                                                                         *)
(* Dev is the set of named as-shipped deviations that are switched on;     *)
(* {} is the intended behaviour.  A cfg overrides it with Dev <- ...       *)
(***************************************************************************)
EXTENDS Candle

Dev == {}

\* manager configuration: tf = 0 means no timeframe, life = -1 means no lifespan
MkCfg(tf, fill, life, ha) == [tf |-> tf, fill |-> fill, life |-> life, ha |-> ha]

Last(s) == s[Len(s)]
Front(s) == SubSeq(s, 1, Len(s) - 1)
ReplaceLast(s, x) == [s EXCEPT ![Len(s)] = x]

(***************************************************************************)
(* collapse_candles: result is [ok, cs]; ok = FALSE is InvalidCandleOrder  *)
(***************************************************************************)
\* merge as the walk performs it; the deviation keeps the bucket's readings (a stale reading
\* would then never be recomputed): switched on only to show that C01 can fail
MergeW(p, c) ==
  IF "merge_keeps_readings" \in Dev THEN [Merge(p, c) EXCEPT !.ind = p.ind, !.sub = p.sub]
  ELSE Merge(p, c)

\* the walk over the candles after the first; the branch and its effect on the window come from
\* Buckets.tla (BranchI / StepI), the candle-level effect (merge or append with a label) is here
RECURSIVE Walk(_, _, _, _, _)
Walk(out, rest, s, e, tf) ==
  IF rest = <<>> THEN [ok |-> TRUE, cs |-> out]
  ELSE
    LET c  == Head(rest)
        r  == Tail(rest)
        p  == Last(out)
    IN IF c.ts = NoTs \/ p.ts = NoTs THEN Walk(out, r, s, e, tf)   \* candle silently dropped
       ELSE LET st == StepI(p.ts, c.ts, s, e, tf)
            IN IF ~st.ok THEN [ok |-> FALSE, cs |-> out]                                  \* B7
               ELSE IF st.merge THEN Walk(ReplaceLast(out, MergeW(p, c)), r, st.s, st.e, tf) \* B1 B3
               ELSE Walk(Append(out, [c EXCEPT !.ts = st.label]), r, st.s, st.e, tf)      \* B2 B4 B5 B6

\* which branch the walk takes for candle c in state (p, s, e): used for coverage reports
WalkBranch(p, c, s, e, tf) ==
  IF c.ts = NoTs \/ p.ts = NoTs THEN 0 ELSE BranchI(p.ts, c.ts, s, e, tf)

(***************************************************************************)
(* fill_missing_candles                                                    *)
(***************************************************************************)
FillCandle(p, tf) == MkCandle(p.ts + tf, p.c, p.c, p.c, p.c, Zero)

InsertAt(s, i, x) == SubSeq(s, 1, i - 1) \o <<x>> \o SubSeq(s, i, Len(s))

MaxFill == 4000
\* index is the 1-based position of the candle compared with its predecessor
RECURSIVE FillLoop(_, _, _)
FillLoop(cs, i, tf) ==
  LET p   == cs[i - 1]
      cs2 == IF p.ts # NoTs /\ cs[i].ts # p.ts + tf
             THEN InsertAt(cs, i, FillCandle(p, tf)) ELSE cs
  \* (a list beyond MaxFill candles is not walked further: the recursion would outgrow TLC's
  \*  stack; recorded scenarios -- a pause of 2000 buckets included -- stay below it, so reaching it is
  \*  itself a mismatch.  The library has no such limit and the properties allow none.)
  IN IF i + 1 > Len(cs2) \/ Len(cs2) > MaxFill THEN cs2 ELSE FillLoop(cs2, i + 1, tf)

FillWalk(cs, tf) == IF Len(cs) < 2 THEN cs ELSE FillLoop(cs, 2, tf)

Collapse(cs, cfg) ==
  IF cs = <<>> \/ cfg.tf = 0 THEN [ok |-> TRUE, cs |-> cs]
  ELSE IF cs[1].ts = NoTs THEN [ok |-> TRUE, cs |-> Tail(cs)]  \* as shipped: the popped first candle is lost
  ELSE
    LET c0   == cs[1]
        s0   == FirstS(c0.ts, cfg.tf)
        init == [c0 EXCEPT !.ts = FirstLabel(c0.ts, cfg.tf)]
        w    == Walk(<<init>>, Tail(cs), s0, s0 + cfg.tf, cfg.tf)
    IN IF ~w.ok THEN w
       ELSE [ok |-> TRUE, cs |-> IF cfg.fill THEN FillWalk(w.cs, cfg.tf) ELSE w.cs]

(***************************************************************************)
(* convert_candles (Heikin-Ashi)                                           *)
(***************************************************************************)
Quarter == Q(1, 4)
Half == Q(1, 2)

\* HeikinAshi.convert_candle for the candle at 1-based position i of cs
HAConvertOne(cs, i) ==
  LET x  == cs[i]
      nc == Mul(Add(Add(x.o, x.h), Add(x.l, x.c)), Quarter)
      no == IF i = 1 THEN Mul(Add(x.o, x.c), Half)
            ELSE Mul(Add(cs[i - 1].o, cs[i - 1].c), Half)
  IN [x EXCEPT !.o = no, !.h = Max(no, Max(x.h, nc)), !.l = Min(no, Min(x.l, nc)), !.c = nc]

\* CandlestickType._find_conv_index, 0-based result as in the code
RECURSIVE LastTagged(_, _)
LastTagged(cs, i) ==    \* greatest 1-based position in 2..i that carries the tag, else 0
  IF i < 2 THEN 0 ELSE IF cs[i].tag = HAName THEN i ELSE LastTagged(cs, i - 1)

ConvIndex(cs) ==
  IF Len(cs) = 0 \/ cs[1].tag = "" THEN 0
  ELSE LET k == LastTagged(cs, Len(cs))
       IN IF k # 0 THEN k          \* 0-based index of the candle after the last tagged one
          ELSE IF "HA_convindex_single_tag" \in Dev THEN Len(cs)   \* as shipped: stalls
          ELSE 1

\* conversion(): save clean, convert, reset, tag -- from the resume index to the end
RECURSIVE ConvLoop(_, _)
ConvLoop(cs, i) ==      \* i is 1-based
  IF i > Len(cs) THEN [ok |-> TRUE, cs |-> cs]
  ELSE IF cs[i].tag # "" THEN [ok |-> FALSE, cs |-> cs]       \* CandleAlreadyTagged
  ELSE LET x == HAConvertOne([cs EXCEPT ![i] = SaveClean(cs[i])], i)
       IN ConvLoop([cs EXCEPT ![i] = [Reset(x) EXCEPT !.tag = HAName]], i + 1)

Convert(cs, cfg) ==
  IF cs = <<>> \/ ~cfg.ha THEN [ok |-> TRUE, cs |-> cs] ELSE ConvLoop(cs, ConvIndex(cs) + 1)

(***************************************************************************)
(* trim_candles                                                            *)
(***************************************************************************)
RECURSIVE TrimLoop(_, _)
TrimLoop(cs, lim) ==
  IF cs # <<>> /\ cs[1].ts # NoTs /\ cs[1].ts < lim THEN TrimLoop(Tail(cs), lim) ELSE cs

Trim(cs, cfg) ==
  IF cfg.life < 0 \/ cs = <<>> \/ Last(cs).ts = NoTs THEN cs
  ELSE TrimLoop(cs, Last(cs).ts - cfg.life)

(***************************************************************************)
(* _tasks, construction and append.  Result [ok, err, cs]                  *)
(***************************************************************************)
MgrTasks(cs, cfg) ==
  LET a == Collapse(cs, cfg)
  IN IF ~a.ok THEN [ok |-> FALSE, err |-> "InvalidCandleOrder", cs |-> a.cs]
     ELSE LET b == Convert(a.cs, cfg)
          IN IF ~b.ok THEN [ok |-> FALSE, err |-> "CandleAlreadyTagged", cs |-> b.cs]
             ELSE [ok |-> TRUE, err |-> "", cs |-> Trim(b.cs, cfg)]

MgrNew(cs, cfg) == MgrTasks(cs, cfg)
\* appending nothing returns before _tasks
MgrAppend(cs, new, cfg) ==
  IF new = <<>> THEN [ok |-> TRUE, err |-> "", cs |-> cs] ELSE MgrTasks(cs \o new, cfg)

\* Hexital._raw_default_candles: what a new timeframe manager is built from -- copies of the
\* default manager's candles with raw values recovered, no conversion tag, no readings
RawCopies(cs) == [i \in 1..Len(cs) |-> [Reset(Recover(cs[i])) EXCEPT !.cl = <<>>]]

\* CandleManager.purge(set of names)
KVRemove(kv, names) ==
  LET keep == {i \in 1..Len(kv.k) : kv.k[i] \notin names}
      RECURSIVE Pick(_, _)
      Pick(i, acc) == IF i > Len(kv.k) THEN acc
                      ELSE IF i \in keep
                        THEN Pick(i + 1, [k |-> Append(acc.k, kv.k[i]), v |-> Append(acc.v, kv.v[i])])
                        ELSE Pick(i + 1, acc)
  IN Pick(1, EmptyKV)

MgrPurge(cs, names) ==
  [i \in 1..Len(cs) |-> [cs[i] EXCEPT !.ind = KVRemove(cs[i].ind, names),
                                      !.sub = KVRemove(cs[i].sub, names)]]

(***************************************************************************)
(* Definitional forms                                                      *)
(***************************************************************************)
\* right-closed, right-labelled OHLCV resampling of a raw stream
RECURSIVE ResampleFrom(_, _, _)
ResampleFrom(out, rest, tf) ==
  IF rest = <<>> THEN out
  ELSE LET c == Head(rest)
           b == Bucket(c.ts, tf)
       IN IF out # <<>> /\ Last(out).ts = b
          THEN LET p == Last(out)
               IN ResampleFrom(ReplaceLast(out, [p EXCEPT !.h = Max(p.h, c.h), !.l = Min(p.l, c.l),
                                                          !.v = Add(p.v, c.v), !.c = c.c]),
                               Tail(rest), tf)
          ELSE ResampleFrom(Append(out, [c EXCEPT !.ts = b]), Tail(rest), tf)

Resample(raw, tf) == IF tf = 0 THEN raw ELSE ResampleFrom(<<>>, raw, tf)

RECURSIVE FillDefFrom(_, _, _)
FillDefFrom(out, rest, tf) ==
  IF rest = <<>> THEN out
  ELSE LET p == Last(out)
       IN IF Head(rest).ts > p.ts + tf /\ Len(out) <= MaxFill
          THEN FillDefFrom(Append(out, Core(FillCandle(p, tf))), rest, tf)
          ELSE FillDefFrom(Append(out, Head(rest)), Tail(rest), tf)

\* on sequences of Core records
FillDef(cs, tf) == IF Len(cs) < 2 THEN cs ELSE FillDefFrom(<<cs[1]>>, Tail(cs), tf)

RECURSIVE HADefFrom(_, _)
HADefFrom(out, rest) ==
  IF rest = <<>> THEN out
  ELSE LET x  == Head(rest)
           nc == Mul(Add(Add(x.o, x.h), Add(x.l, x.c)), Quarter)
           no == IF out = <<>> THEN Mul(Add(x.o, x.c), Half)
                 ELSE Mul(Add(Last(out).o, Last(out).c), Half)
       IN HADefFrom(Append(out, [x EXCEPT !.o = no, !.h = Max(no, Max(x.h, nc)),
                                          !.l = Min(no, Min(x.l, nc)), !.c = nc]), Tail(rest))
HADef(cs) == HADefFrom(<<>>, cs)

TrimDef(cs, life) ==
  IF life < 0 \/ cs = <<>> THEN cs
  ELSE SelectSeq(cs, LAMBDA c : c.ts >= Last(cs).ts - life)

\* what a manager with configuration cfg must show for the raw stream (Core records):
\* the window is taken on what is shown, the conversion runs over the whole history
ShownDef(raw, cfg) ==
  LET rs == Resample(CoreSeq(raw), cfg.tf)
      fs == IF cfg.tf # 0 /\ cfg.fill THEN FillDef(rs, cfg.tf) ELSE rs
      hs == IF cfg.ha THEN HADef(fs) ELSE fs
  IN TrimDef(hs, cfg.life)
\* and the raw values that must stay recoverable from it
CleanDef(raw, cfg) ==
  LET rs == Resample(CoreSeq(raw), cfg.tf)
      fs == IF cfg.tf # 0 /\ cfg.fill THEN FillDef(rs, cfg.tf) ELSE rs
      n  == Len(fs) - Len(ShownDef(raw, cfg))
  IN SubSeq(fs, n + 1, Len(fs))

=============================================================================
