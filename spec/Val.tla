-------------------------------- MODULE Val --------------------------------
(***************************************************************************)
(* The value domain of readings and how stored readings are looked up      *)
(* (hexital/utils/candles.py: reading_by_candle, _nested_indicator).       *)
(*                                                                         *)
(* ONE value type (TLC aborts when a record is compared with an integer or *)
(* a string): tagged records whose field set differs per tag.              *)
(*   [t |-> "n"]                    None                                   *)
(*   [t |-> "b", b]                 bool                                   *)
(*   [t |-> "q", n, d]              exact rational (spec-computed)         *)
(*   [t |-> "q", n, d, x, s, sf, i, h]   observed number:                  *)
(*         n/d recovered fraction, x = 1 iff it is the exact value,        *)
(*         s = round(value * 10^6) valid iff sf = 1, i = 1 iff Python int, *)
(*         h = float.hex() / repr -- bit-exact identity                    *)
(*   [t |-> "d", k, v]              dict reading (keys, values)            *)
(*   [t |-> "nf", h]                non-finite float (observed only)       *)
(*   [t |-> "o", h]                 any other Python object (observed)     *)
(*   [t |-> "any"]                  spec only: any finite number allowed   *)
(*   [t |-> "nar"]                  spec only: could not be computed       *)
(* References to readings are pairs [n, f]: name and dict field ("" = none)*)
(***************************************************************************)
EXTENDS Manager

NoneV == [t |-> "n"]
BoolV(b) == [t |-> "b", b |-> b]
QV(r) == IF IsNaR(r) THEN [t |-> "nar"] ELSE [t |-> "q", n |-> r[1], d |-> r[2]]
AnyV == [t |-> "any"]
NarV == [t |-> "nar"]
DictV(ks, vs) == [t |-> "d", k |-> ks, v |-> vs]

Ref(n) == [n |-> n, f |-> ""]
RefF(n, f) == [n |-> n, f |-> f]

IsObs(v) == "x" \in DOMAIN v
Exact(v) == IsObs(v) => v.x = 1
\* rational carried by a number value; NaR when it is not exactly known
NumOf(v) == IF v.t = "q" /\ Exact(v) THEN <<v.n, v.d>> ELSE NaR

\* Python truthiness of a reading
Truthy(v) ==
  CASE v.t = "n" -> FALSE
    [] v.t = "b" -> v.b
    [] v.t = "q" -> v.n # 0
    [] v.t = "d" -> Len(v.k) > 0
    [] OTHER -> TRUE

KVHas(kv, name) == \E j \in 1..Len(kv.k) : kv.k[j] = name
KVGet(kv, name) == kv.v[CHOOSE j \in 1..Len(kv.k) : kv.k[j] = name]
KVPut(kv, name, val) ==
  IF KVHas(kv, name)
  THEN [kv EXCEPT !.v[CHOOSE j \in 1..Len(kv.k) : kv.k[j] = name] = val]
  ELSE [k |-> Append(kv.k, name), v |-> Append(kv.v, val)]

DictField(v, f) == IF KVHas(v, f) THEN KVGet(v, f) ELSE NoneV

RawFields == {"open", "high", "low", "close", "volume"}
RawField(c, name) ==
  CASE name = "open" -> c.o [] name = "high" -> c.h [] name = "low" -> c.l
    [] name = "close" -> c.c [] name = "volume" -> c.v

\* reading_by_candle(candle, name) for a plain name: attribute, then indicators, then
\* sub_indicators (first place that has the key wins); absent reads as None
\* the candle's own shape properties are readable by name like its fields (Candle.realbody, ...)
PropFields == {"realbody", "shadow_upper", "shadow_lower", "high_low", "positive", "negative"}
PropField(c, name) ==
  CASE name = "realbody" -> QV(RealBody(c)) [] name = "shadow_upper" -> QV(ShadowUpper(c))
    [] name = "shadow_lower" -> QV(ShadowLower(c)) [] name = "high_low" -> QV(HighLow(c))
    [] name = "positive" -> BoolV(Positive(c)) [] name = "negative" -> BoolV(Negative(c))

Get(c, name) ==
  IF name \in RawFields THEN QV(RawField(c, name))
  ELSE IF name \in PropFields THEN PropField(c, name)
  ELSE IF KVHas(c.ind, name) THEN KVGet(c.ind, name)
  ELSE IF KVHas(c.sub, name) THEN KVGet(c.sub, name)
  ELSE NoneV

\* dotted name: indicators then sub_indicators, dict -> field, scalar -> itself
GetRef(c, r) ==
  IF r.f = "" THEN Get(c, r.n)
  ELSE LET v == IF KVHas(c.ind, r.n) THEN KVGet(c.ind, r.n)
                ELSE IF KVHas(c.sub, r.n) THEN KVGet(c.sub, r.n) ELSE NoneV
       IN IF v.t = "d" THEN DictField(v, r.f) ELSE v

Rd(cs, i, r) == IF i < 1 \/ i > Len(cs) THEN NoneV ELSE GetRef(cs[i], r)
Has(cs, i, r) == Rd(cs, i, r).t # "n"
X(cs, i, r) == NumOf(Rd(cs, i, r))

(***************************************************************************)
(* Comparing an observed value with an expected one                        *)
(* result: "ok", "bad" or "unchecked" (overflow guard / inexact input)     *)
(***************************************************************************)
\* half a unit of the configured rounding, in 10^-6 units, plus quantisation slack;
\* rv < 0 means "not rounded"
Tau(rv, slack) ==
  IF rv < 0 \/ rv > 6 THEN 2 + slack ELSE ((Pow10(6 - rv) \div 2) * (1 + slack)) + 2

\* expected rational e against observed number o, tolerance on the OBSERVED side
WithinQ(o, e, rv, slack) ==
  IF IsNaR(e) THEN "unchecked"
  ELSE IF o.sf = 1
    THEN LET tau == Tau(rv, slack)
         IN IF Le(Q(o.s - tau, 1000000), e) /\ Le(e, Q(o.s + tau, 1000000)) THEN "ok" ELSE "bad"
  ELSE IF o.x = 1
    THEN LET df == Abs(Sub(<<o.n, o.d>>, e))
         IN IF IsNaR(df) THEN "unchecked"
            ELSE IF Le(df, Q(Tau(rv, slack), 1000000)) THEN "ok" ELSE "bad"
  ELSE "unchecked"

\* expected sqrt(e) against observed number o: compared through squares at 10^-4 (or, for
\* larger values, 10^-3) so that nothing is multiplied beyond 31 bits
WithinSqrt(o, e, rv, slack) ==
  IF IsNaR(e) THEN "unchecked"
  ELSE IF e[1] < 0 THEN "bad"
  ELSE IF o.sf # 1 THEN "unchecked"
  ELSE LET tau == Tau(rv, slack)
           lo4 == (o.s - tau) \div 100
           hi4 == ((o.s + tau) \div 100) + 1
           lo3 == (o.s - tau) \div 1000
           hi3 == ((o.s + tau) \div 1000) + 1
       IN IF hi4 < 0 THEN "bad"
          ELSE IF hi4 <= 46340
            THEN IF (lo4 <= 0 \/ LeFrac(lo4 * lo4, 100000000, e[1], e[2]))
                    /\ LeFrac(e[1], e[2], hi4 * hi4, 100000000) THEN "ok" ELSE "bad"
          ELSE IF hi3 <= 46340
            THEN IF (lo3 <= 0 \/ LeFrac(lo3 * lo3, 1000000, e[1], e[2]))
                    /\ LeFrac(e[1], e[2], hi3 * hi3, 1000000) THEN "ok" ELSE "bad"
          ELSE "unchecked"

RECURSIVE MatchV(_, _, _, _)
MatchV(o, e, rv, slack) ==
  CASE e.t = "nar" -> "unchecked"
    [] e.t = "n" -> IF o.t = "n" THEN "ok" ELSE "bad"
    [] e.t = "b" -> IF o.t = "b" /\ o.b = e.b THEN "ok" ELSE "bad"
    [] e.t = "any" -> IF o.t = "q" THEN "ok" ELSE "bad"
    [] e.t = "q" -> IF o.t # "q" THEN "bad"
                    ELSE IF ~Exact(e) THEN "unchecked"
                    ELSE WithinQ(o, <<e.n, e.d>>, rv, slack)
    [] e.t = "sqrt" -> IF o.t # "q" THEN "bad" ELSE WithinSqrt(o, <<e.n, e.d>>, rv, slack)
    [] e.t = "d" ->
         IF o.t # "d" THEN "bad"
         ELSE IF {o.k[j] : j \in 1..Len(o.k)} # {e.k[j] : j \in 1..Len(e.k)} THEN "bad"
         ELSE LET rs == {MatchV(DictField(o, e.k[j]), e.v[j], rv, slack) : j \in 1..Len(e.k)}
              IN IF "bad" \in rs THEN "bad" ELSE IF "unchecked" \in rs THEN "unchecked" ELSE "ok"

\* alternatives: acceptable if any candidate matches
MatchAny(o, es, rv, slack) ==
  LET rs == {MatchV(o, es[j], rv, slack) : j \in 1..Len(es)}
  IN IF "ok" \in rs THEN "ok" ELSE IF "unchecked" \in rs THEN "unchecked" ELSE "bad"

\* bit-exact identity of two observed values ("exactly the same"):
\* Python value equality -- numbers through their exact hex, dicts per key
RECURSIVE SameV(_, _)
SameV(a, b) ==
  IF a.t # b.t THEN FALSE
  ELSE CASE a.t = "n" -> TRUE
         [] a.t = "b" -> a.b = b.b
         [] a.t = "q" -> IF IsObs(a) /\ IsObs(b) THEN a.h = b.h ELSE a.n = b.n /\ a.d = b.d
         [] a.t = "nf" -> a.h = b.h
         [] a.t = "o" -> a.h = b.h
         [] a.t = "d" -> /\ {a.k[j] : j \in 1..Len(a.k)} = {b.k[j] : j \in 1..Len(b.k)}
                         /\ \A j \in 1..Len(a.k) : SameV(a.v[j], DictField(b, a.k[j]))

\* finite / well-typed (C09): None, bool, finite number, or dict of those
RECURSIVE FiniteV(_)
FiniteV(v) ==
  CASE v.t \in {"n", "b", "q"} -> TRUE
    [] v.t = "d" -> \A j \in 1..Len(v.v) : FiniteV(v.v[j])
    [] OTHER -> FALSE

\* rounded to rv decimals (C10): the recovered fraction is exact and 10^rv * value is integral
RECURSIVE RoundedV(_, _)
RoundedV(v, rv) ==
  CASE v.t = "q" -> IF v.i = 1 \/ rv > 5 \/ v.sf # 1 THEN TRUE   \* beyond what 32 bits can judge
                    ELSE v.x = 1 /\ RoundedTo(<<v.n, v.d>>, rv)
    [] v.t = "d" -> \A j \in 1..Len(v.v) : RoundedV(v.v[j], rv)
    [] OTHER -> TRUE

=============================================================================
