SPECIFICATION Spec
CONSTANTS
  Dev <- DevFromDefault
  TF = 3
  MaxLen = 4
  MaxChunk = 2
  Gaps = {0, 1, 2, 4, 7}
INVARIANT C08_AtConstruction
CHECK_DEADLOCK FALSE
