SPECIFICATION Spec
CONSTANTS
  MaxLen = 4
  MaxPat = 3
INVARIANT C16_Causal
INVARIANT C17_Invariant
INVARIANT C17_MissingNeverTrue
CHECK_DEADLOCK FALSE
