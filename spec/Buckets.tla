------------------------------ MODULE Buckets ------------------------------
(***************************************************************************)
(* The time axis of the candle manager as pure integer arithmetic          *)
(* (hexital/utils/timeframe.py round_down_timestamp / on_timeframe and the *)
(* seven-way branch of CandleManager.collapse_candles).                    *)
(*                                                                         *)
(* This module is the single source of the bucket arithmetic: Manager.tla  *)
(* builds its Walk from BranchI/StepI, the trace specification evaluates   *)
(* the same operators, and Apa_Walk.tla proves with Apalache -- for ALL    *)
(* integers, not for a bounded model -- that one step of the walk labels   *)
(* a candle with Bucket(t) and merges exactly when the bucket is that of   *)
(* the previous candle (C03's bucket assignment, unbounded).               *)
(* Integers only, no sequences: both TLC and Apalache read it.             *)
(***************************************************************************)
EXTENDS Integers

\* \div floors and % is non-negative for a positive divisor (TLA+ and SMT agree there)
RoundDown(t, tf) == (t \div tf) * tf
OnTf(t, tf) == t % tf = 0
\* right-closed, right-labelled bucket (k*tf, (k+1)*tf] -> (k+1)*tf
Bucket(t, tf) == ((t + tf - 1) \div tf) * tf

\* the branch collapse_candles takes for a candle stamped t when the last collapsed candle is
\* stamped pts and the current window is (s, e]   (code order; 7 = InvalidCandleOrder)
BranchI(pts, t, s, e, tf) ==
  IF s < t /\ t <= e /\ pts = e THEN 1
  ELSE IF s < t /\ t <= e THEN 2
  ELSE IF s - tf < t /\ t <= s /\ pts = s THEN 3
  ELSE IF e < t /\ t <= e + tf THEN 4
  ELSE IF s < t /\ OnTf(t, tf) THEN 5
  ELSE IF e + tf < t THEN 6
  ELSE 7

\* what that branch does on the time axis: the new window, whether the candle is merged into
\* the last collapsed candle, and the label it gets when it is appended instead
StepI(pts, t, s, e, tf) ==
  LET b == BranchI(pts, t, s, e, tf)
  IN CASE b = 1 -> [b |-> 1, ok |-> TRUE,  merge |-> TRUE,  label |-> pts,    s |-> s,      e |-> e]
       [] b = 2 -> [b |-> 2, ok |-> TRUE,  merge |-> FALSE, label |-> e,      s |-> s,      e |-> e]
       [] b = 3 -> [b |-> 3, ok |-> TRUE,  merge |-> TRUE,  label |-> pts,    s |-> s,      e |-> e]
       [] b = 4 -> [b |-> 4, ok |-> TRUE,  merge |-> FALSE, label |-> e + tf, s |-> s + tf, e |-> e + tf]
       [] b = 5 -> [b |-> 5, ok |-> TRUE,  merge |-> FALSE, label |-> t,      s |-> t,      e |-> t + tf]
       [] b = 6 -> [b |-> 6, ok |-> TRUE,  merge |-> FALSE, label |-> RoundDown(t, tf) + tf,
                                                            s |-> RoundDown(t, tf), e |-> RoundDown(t, tf) + tf]
       [] OTHER -> [b |-> 7, ok |-> FALSE, merge |-> FALSE, label |-> pts,    s |-> s,      e |-> e]

\* the window and the label collapse_candles starts from for a first candle stamped t0
FirstS(t0, tf) == RoundDown(t0, tf)
FirstLabel(t0, tf) == IF OnTf(t0, tf) THEN t0 ELSE RoundDown(t0, tf) + tf
=============================================================================
