SPECIFICATION Spec
CONSTANTS
  MaxLen = 4
INVARIANT DefsAgree
INVARIANT SDAgree
INVARIANT StructOK
CHECK_DEADLOCK FALSE
