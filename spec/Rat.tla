-------------------------------- MODULE Rat --------------------------------
(***************************************************************************)
(* Exact rationals <<n, d>> on TLC's 32-bit integers.                      *)
(*                                                                         *)
(* Every value is gcd-normalised with d > 0.  Every operation is GUARDED:  *)
(* operands are tested before they are multiplied or added and the         *)
(* absorbing value NaR == <<0,0>> is returned instead of overflowing.      *)
(* NaR is reported by the trace specifications as "unchecked", never as a  *)
(* verdict.  Order tests use LeFrac, which decides a/c <= d/b by Euclid on *)
(* quotients and remainders and so never multiplies at all.                *)
(***************************************************************************)
EXTENDS Integers, Sequences

MAXI == 2147483647

NaR == <<0, 0>>
IsNaR(a) == a[2] = 0

AbsI(x) == IF x < 0 THEN -x ELSE x
SgnI(x) == IF x < 0 THEN -1 ELSE IF x = 0 THEN 0 ELSE 1
MinI(a, b) == IF a <= b THEN a ELSE b
MaxI(a, b) == IF a >= b THEN a ELSE b

RECURSIVE GCD(_, _)
GCD(a, b) == IF b = 0 THEN a ELSE GCD(b, a % b)

FitsMul(a, b) == a = 0 \/ b = 0 \/ AbsI(a) <= MAXI \div AbsI(b)
FitsAdd(a, b) == AbsI(a) <= MAXI - AbsI(b)

\* n/d with d # 0 -> normal form
Norm(n, d) ==
  IF d = 0 THEN NaR
  ELSE LET g == GCD(AbsI(n), AbsI(d))
           s == IF d < 0 THEN -1 ELSE 1
       IN <<s * (n \div g), s * (d \div g)>>

R(n) == <<n, 1>>
Q(n, d) == Norm(n, d)
Zero == <<0, 1>>
One == <<1, 1>>

Neg(a) == IF IsNaR(a) THEN NaR ELSE <<-a[1], a[2]>>

Add(a, b) ==
  IF IsNaR(a) \/ IsNaR(b) THEN NaR
  ELSE LET g  == GCD(a[2], b[2])
           m1 == b[2] \div g
           m2 == a[2] \div g
       IN IF FitsMul(a[1], m1) /\ FitsMul(b[1], m2) /\ FitsMul(a[2], m1)
             /\ FitsAdd(a[1] * m1, b[1] * m2)
          THEN Norm(a[1] * m1 + b[1] * m2, a[2] * m1)
          ELSE NaR

Sub(a, b) == Add(a, Neg(b))

Mul(a, b) ==
  IF IsNaR(a) \/ IsNaR(b) THEN NaR
  ELSE IF a[1] = 0 \/ b[1] = 0 THEN Zero
  ELSE LET g1 == GCD(AbsI(a[1]), b[2])
           g2 == GCD(AbsI(b[1]), a[2])
           n1 == a[1] \div g1
           n2 == b[1] \div g2
           d1 == a[2] \div g2
           d2 == b[2] \div g1
       IN IF FitsMul(n1, n2) /\ FitsMul(d1, d2)
          THEN <<n1 * n2, d1 * d2>>
          ELSE NaR

Inv(a) == IF IsNaR(a) \/ a[1] = 0 THEN NaR
          ELSE IF a[1] < 0 THEN <<-a[2], -a[1]>> ELSE <<a[2], a[1]>>

Div(a, b) == Mul(a, Inv(b))

IsZero(a) == ~IsNaR(a) /\ a[1] = 0
Sgn(a) == SgnI(a[1])
Abs(a) == IF IsNaR(a) THEN NaR ELSE <<AbsI(a[1]), a[2]>>

\* a/c <= d/b for a, d >= 0 and c, b > 0, no multiplication
RECURSIVE LeFrac(_, _, _, _)
LeFrac(a, c, d, b) ==
  LET q1 == a \div c
      q2 == d \div b
      r1 == a % c
      r2 == d % b
  IN IF q1 # q2 THEN q1 < q2
     ELSE IF r1 = 0 THEN TRUE
     ELSE IF r2 = 0 THEN FALSE
     ELSE LeFrac(b, r2, c, r1)

\* total order on proper rationals (callers exclude NaR)
Le(a, b) ==
  IF a[1] <= 0 /\ b[1] >= 0 THEN TRUE
  ELSE IF a[1] > 0 /\ b[1] <= 0 THEN FALSE
  ELSE IF a[1] >= 0 /\ b[1] < 0 THEN FALSE
  ELSE IF a[1] > 0 THEN LeFrac(a[1], a[2], b[1], b[2])
  ELSE LeFrac(-b[1], b[2], -a[1], a[2])

Eq(a, b) == a = b          \* normal forms are canonical
Lt(a, b) == Le(a, b) /\ a # b
Ge(a, b) == Le(b, a)
Gt(a, b) == Lt(b, a)

Min(a, b) == IF IsNaR(a) \/ IsNaR(b) THEN NaR ELSE IF Le(a, b) THEN a ELSE b
Max(a, b) == IF IsNaR(a) \/ IsNaR(b) THEN NaR ELSE IF Le(a, b) THEN b ELSE a

\* floor of a proper rational (Integers' \div already floors)
Floor(a) == a[1] \div a[2]

RECURSIVE Pow10(_)
Pow10(k) == IF k <= 0 THEN 1 ELSE 10 * Pow10(k - 1)

RECURSIVE PowR(_, _)
PowR(a, k) == IF k <= 0 THEN One ELSE Mul(a, PowR(a, k - 1))

\* folds over sequences of rationals
RECURSIVE SumR(_)
SumR(s) == IF s = <<>> THEN Zero ELSE Add(Head(s), SumR(Tail(s)))
RECURSIVE MinR(_)
MinR(s) == IF Len(s) = 1 THEN s[1] ELSE Min(s[1], MinR(Tail(s)))
RECURSIVE MaxR(_)
MaxR(s) == IF Len(s) = 1 THEN s[1] ELSE Max(s[1], MaxR(Tail(s)))

AnyNaR(s) == \E i \in 1..Len(s) : IsNaR(s[i])

\* does 10^k * a have denominator 1 ?  (a is "rounded to k decimals")
RoundedTo(a, k) == ~IsNaR(a) /\ Pow10(k) % a[2] = 0

=============================================================================
