SPECIFICATION Spec
CONSTANTS
  TF = 3
  MaxLen = 3
  MaxOps = 2
INVARIANT C01_IncEqBatch
INVARIANT C14_Idempotent
PROPERTY C02_Action
PROPERTY C07_Action
PROPERTY C13_Action
PROPERTY C14_Action
CHECK_DEADLOCK FALSE
