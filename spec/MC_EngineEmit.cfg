SPECIFICATION SpecE
CONSTANTS
  TF = 3
  MaxLen = 4
  MaxOps = 2
INVARIANT Emit
CHECK_DEADLOCK FALSE
