SPECIFICATION SpecE
CONSTANTS
  TF = 3
  MaxLen = 8
  MaxOps = 3
  Menu <- MenuWide
  Pairs <- PairsWide
  Sym <- SymWide
  MCfgs <- MCfgsWide
  ChunkMax <- ChunkWide
INVARIANT Emit
CHECK_DEADLOCK FALSE
