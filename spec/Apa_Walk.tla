------------------------------ MODULE Apa_Walk ------------------------------
(***************************************************************************)
(* C03, bucket assignment, for ALL integers (Apalache, inductive).         *)
(*                                                                         *)
(* The collapse walk of CandleManager is a transition system on the time   *)
(* axis: window (s, e], stamp pts of the last collapsed candle, and one    *)
(* incoming stamp t per step.  The step itself is Buckets!StepI -- the     *)
(* operator Manager.tla's Walk is built from and the trace specification   *)
(* evaluates on every recorded execution.                                  *)
(*                                                                         *)
(* Admissible inputs: Bucket(t) never decreases.  That covers a raw stream *)
(* with non-decreasing timestamps AND the way the code really calls the    *)
(* walk -- over the already collapsed list (stamps that are bucket labels) *)
(* followed by the new raw candles, which may lie before the label of the  *)
(* bucket they belong to.                                                  *)
(*                                                                         *)
(* Claim (IndInv): after every step the last collapsed candle is labelled  *)
(* Bucket(t), it was merged exactly when Bucket(t) is the previous bucket, *)
(* the window is aligned and the label is one of its two ends, and         *)
(* InvalidCandleOrder (branch 7) is never taken.                           *)
(*   apalache-mc check --init=Init    --inv=IndInv --length=0 Apa_Walk.tla *)
(*   apalache-mc check --init=IndInit --inv=IndInv --length=1 Apa_Walk.tla *)
(* Non-vacuity: WrongInv (the label is always the window end) is refuted,  *)
(* and with NextLoose (inputs one bucket back allowed) IndInv is refuted.  *)
(***************************************************************************)
EXTENDS Integers, Buckets

VARIABLES
  \* @type: Int;
  tf,
  \* @type: Int;
  s,
  \* @type: Int;
  e,
  \* @type: Int;
  pts,
  \* @type: Int;
  t,
  \* @type: Int;
  prevb,
  \* @type: Bool;
  merged,
  \* @type: Bool;
  ok,
  \* @type: Int;
  br

\* the first candle of collapse_candles
Init ==
  /\ tf \in Int /\ tf > 0
  /\ t \in Int
  /\ s = FirstS(t, tf)
  /\ e = FirstS(t, tf) + tf
  /\ pts = FirstLabel(t, tf)
  /\ prevb = FirstLabel(t, tf) - tf
  /\ merged = FALSE
  /\ ok = TRUE
  /\ br = 0

StepWith(nt) ==
  LET st == StepI(pts, nt, s, e, tf)
  IN /\ t' = nt
     /\ tf' = tf
     /\ s' = st.s
     /\ e' = st.e
     /\ pts' = st.label
     /\ merged' = st.merge
     /\ ok' = st.ok
     /\ br' = st.b
     /\ prevb' = Bucket(t, tf)

Next == \E nt \in Int : Bucket(nt, tf) >= Bucket(t, tf) /\ StepWith(nt)

\* deliberately too permissive: an input one bucket back (must break IndInv)
NextLoose == \E nt \in Int : Bucket(nt, tf) >= Bucket(t, tf) - tf /\ StepWith(nt)

IndInv ==
  /\ tf > 0
  /\ ok
  /\ s % tf = 0
  /\ e = s + tf
  /\ pts = Bucket(t, tf)
  /\ pts \in {s, e}
  /\ (merged <=> pts = prevb)
  /\ br \in 0..6

\* every variable constrained: the inductive step starts from an arbitrary state satisfying IndInv
IndInit ==
  /\ tf \in Int /\ s \in Int /\ e \in Int /\ pts \in Int /\ t \in Int /\ prevb \in Int
  /\ merged \in BOOLEAN /\ ok \in BOOLEAN /\ br \in 0..7
  /\ IndInv

WrongInv == IndInv /\ pts = e
=============================================================================
