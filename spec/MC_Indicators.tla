---------------------------- MODULE MC_Indicators ----------------------------
(***************************************************************************)
(* For every stream over a small candle alphabet (rising, falling, gaps up *)
(* and down, flat, zero volume, repeated extremes) and every indicator of  *)
(* the menu: the engine of Engine.tla driven by the LAYER FUNCTIONS F --    *)
(* the same operators the recorded traces of the real code are validated   *)
(* with -- yields exactly the DEFINITIONAL columns of Defs.tla (window     *)
(* formulas, seed + recurrence, cumulative sums) computed from the raw     *)
(* candles alone.  Exact arithmetic, no rounding.                          *)
(***************************************************************************)
EXTENDS Defs, TLC

CONSTANTS MaxLen
DevOBV == {"OBV_volume_rule"}
DevRMA == {"RMA_seed_absolute_index"}
DevWrap == {"lookback_wraps"}

\* (o, h, l, c, v)
Sym == << <<10, 12, 9, 11, 2>>,     \* up
          <<11, 11, 8, 9, 3>>,      \* down
          <<14, 15, 13, 15, 1>>,    \* gap up
          <<6, 7, 5, 6, 0>>,        \* gap down, flat body, no volume
          <<9, 9, 9, 9, 2>> >>      \* flat
MkSym(k, ts) == MkCandle(ts, R(Sym[k][1]), R(Sym[k][2]), R(Sym[k][3]), R(Sym[k][4]), R(Sym[k][5]))

Cfg(kind, name, p, p2, p3, in) ==
  [kind |-> kind, name |-> name, mg |-> 1, rv |-> -1, p |-> p, p2 |-> p2, p3 |-> p3,
   in |-> Ref(in), m |-> <<2, 1>>, cv |-> QV(R(2)), fn |-> "", in2 |-> Ref("")]

Menu == << Cfg("SMA", "SMA_2", 2, 0, 0, "close"), Cfg("SMA", "SMA_3", 3, 0, 0, "high"),
           Cfg("EMA", "EMA_2", 2, 0, 0, "close"), Cfg("EMA", "EMA_3", 3, 0, 0, "low"),
           Cfg("RMA", "RMA_2", 2, 0, 0, "close"), Cfg("RMA", "RMA_3", 3, 0, 0, "open"),
           Cfg("WMA", "WMA_3", 3, 0, 0, "close"), Cfg("VWMA", "VWMA_2", 2, 0, 0, "close"),
           Cfg("HMA", "HMA_4", 4, 0, 0, "close"),
           Cfg("TR", "TR", 0, 0, 0, "close"), Cfg("ATR", "ATR_2", 2, 0, 0, "close"),
           Cfg("KC", "KC_2", 2, 0, 0, "close"), Cfg("DONCHIAN", "DONCHIAN_3", 3, 0, 0, "close"),
           Cfg("HL", "HL_2", 2, 0, 0, "close"), Cfg("HLA", "HLA", 0, 0, 0, "close"),
           Cfg("Supertrend", "Supertrend_2", 2, 0, 0, "close"),
           Cfg("Counter", "COUNT_volume", 0, 0, 0, "volume"),
           Cfg("RSI", "RSI_2", 2, 0, 0, "close"), Cfg("MACD", "MACD_2_3_2", 2, 3, 2, "close"),
           Cfg("ROC", "ROC", 2, 0, 0, "close"), Cfg("STOCH", "STOCH_2", 2, 2, 2, "close"),
           Cfg("TSI", "TSI_2_1", 2, 1, 0, "close"), Cfg("AROON", "AROON_2", 2, 0, 0, "close"),
           Cfg("ADX", "ADX_2_2", 2, 2, 0, "close"), Cfg("OBV", "OBV", 0, 0, 0, "close"),
           Cfg("VWAP", "VWAP_2", 2, 0, 0, "close") >>

VARIABLE raw
\* the stream grows by one candle per step (every prefix is a state, so TLC's workers share the
\* evaluation of the invariants)
Init == raw = <<>>
Next == /\ Len(raw) < MaxLen
        /\ \E k \in 1..Len(Sym) : raw' = Append(raw, MkSym(k, Len(raw) + 1))
Spec == Init /\ [][Next]_raw

Engine(c) == Column(Batch(raw, <<c>>), c.name)

\* C04 / C05 / C06: the layered engine equals the definition, reading by reading
Agree(c) == Engine(c) = DefCol(c, raw)
DefsAgree == \A k \in 1..Len(Menu) : Agree(Menu[k])

\* which entry disagrees (for diagnosis)
FirstBad == IF DefsAgree THEN "" ELSE Menu[CHOOSE k \in 1..Len(Menu) : ~Agree(Menu[k])].name

\* rolling mean / population variance helper of the square-root kinds
SDc == [Cfg("STDEV", "STDEV_3", 3, 0, 0, "close") EXCEPT !.p = 3]
SDAgree ==
  LET b == Batch(raw, <<SDc>>)
      d == SDDataCol(Col(raw, "close"), 3)
  IN \A i \in 1..Len(raw) : d[i].t = "d" =>
        /\ KVHas(b[i].sub, "STDEV_3_data")
        /\ KVGet(b[i].sub, "STDEV_3_data") = d[i]
        /\ KVHas(b[i].ind, "STDEV_3") /\ KVGet(b[i].ind, "STDEV_3") = SqrtV(NumOf(DictField(d[i], "variance")))

\* C10 on the model: the structural relations hold on every engine state (exact arithmetic)
StructOK ==
  \A k \in 1..Len(Menu) :
     LET c == Menu[k]  b == Batch(raw, <<c>>)
     IN \A i \in 1..Len(raw) : TopCheck(c, b, i) = "ok"
BadStruct == { <<Menu[k].name, i, TopCheck(Menu[k], Batch(raw, <<Menu[k]>>), i)>> :
                 k \in 1..Len(Menu), i \in 1..Len(raw) }
DbgStruct == LET b == {x \in BadStruct : x[3] # "ok"} IN b = {} \/ PrintT(b) = FALSE
BadDefs == {Menu[k].name : k \in {k \in 1..Len(Menu) : ~Agree(Menu[k])}}
DbgDefs == BadDefs = {} \/ PrintT(<<BadDefs, [i \in 1..Len(raw) |-> raw[i].c[1]]>>) = FALSE
=============================================================================
