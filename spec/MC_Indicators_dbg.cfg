SPECIFICATION Spec
CONSTANTS
  MaxLen = 5
INVARIANT DbgDefs
CHECK_DEADLOCK FALSE
