SPECIFICATION Spec
CONSTANTS
  MaxLen = 5
INVARIANT DefsAgree
INVARIANT SDAgree
INVARIANT StructOK
CHECK_DEADLOCK FALSE
