SPECIFICATION Spec
CONSTANTS
  MaxLen = 6
  MaxChunk = 3
  Lifes <- LifesMid
  TFs <- TFsQuick
INVARIANT C15_Window
INVARIANT C15_Tail
CHECK_DEADLOCK FALSE
