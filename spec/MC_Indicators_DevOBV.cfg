SPECIFICATION Spec
CONSTANTS
  MaxLen = 4
  Dev <- DevOBV
INVARIANT DefsAgree
CHECK_DEADLOCK FALSE
