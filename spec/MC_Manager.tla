----------------------------- MODULE MC_Manager -----------------------------
(***************************************************************************)
(* Bounded exhaustive model of the candle manager under every append       *)
(* schedule: all streams over a gap alphabet x all compositions into       *)
(* chunks x all manager configurations.  Properties C03, C11, C12, C15     *)
(* (window clause) are invariants comparing the implementation-shaped      *)
(* operators of Manager.tla with the definitional ones.                    *)
(***************************************************************************)
EXTENDS Manager, TLC, Json, FiniteSets

CONSTANTS TF,        \* timeframe in abstract time units
          MaxLen,    \* stream length bound
          MaxChunk,  \* largest chunk appended in one call
          Gaps,      \* inter-candle gaps (0 = duplicate timestamp)
          Offsets,   \* timestamp of the first candle
          Lifes,     \* lifespans (-1 = none)
          EmitOn     \* print (cfg, stream, expected) for the spec -> code replay

\* cfg files cannot write -1
LifesAll == {-1, 4, 7}
LifesNone == {-1}
DevHA == {"HA_convindex_single_tag"}

VARIABLES cfg, pre, raw, cs, ok
vars == <<cfg, pre, raw, cs, ok>>

(* candle number k of the stream: values chosen so that a wrong merge set,   *)
(* a wrong first/last or a wrong extreme is visible (volume = 2^(k-1))       *)
RECURSIVE Pow2(_)
Pow2(k) == IF k <= 0 THEN 1 ELSE 2 * Pow2(k - 1)
CandleNo(k, ts) ==
  LET o == 10 + ((k * 3) % 7)
      c == 10 + ((k * 5) % 7)
      h == MaxI(o, c) + (k % 3)
      l == MinI(o, c) - ((k * 2) % 3)
  IN MkCandle(ts, R(o), R(h), R(l), R(c), R(Pow2(k - 1)))

Cfgs == { MkCfg(tf, fill, life, ha) :
            tf \in {0, TF}, fill \in BOOLEAN, life \in Lifes, ha \in BOOLEAN }
\* fill needs a timeframe; Heikin-Ashi together with gap filling is outside every
\* property's quantifier (the fill candle copies whatever close is shown at the time)
GoodCfg(c) == (c.fill => c.tf # 0) /\ ~(c.fill /\ c.ha)

\* extend a stream by the gap sequence gs
RECURSIVE Extend(_, _)
Extend(s, gs) ==
  IF gs = <<>> THEN s
  ELSE LET k  == Len(s) + 1
           ts == IF s = <<>> THEN Head(gs) ELSE Last(s).ts + Head(gs)
       IN Extend(Append(s, CandleNo(k, ts)), Tail(gs))

GapSeqs(n) == [1..n -> Gaps]

Init ==
  /\ cfg \in {c \in Cfgs : GoodCfg(c)}
  /\ \E n \in 0..MinI(2, MaxLen) : \E o \in Offsets : \E gs \in GapSeqs(MaxI(n - 1, 0)) :
        LET s == IF n = 0 THEN <<>> ELSE Extend(<<>>, <<o>> \o gs)
            r == MgrNew(s, cfg)
        IN /\ pre = n /\ raw = s /\ cs = r.cs /\ ok = r.ok

AppendChunk ==
  /\ ok
  /\ \E n \in 1..MaxChunk :
       /\ Len(raw) + n <= MaxLen
       /\ \E gs \in GapSeqs(n) :
            \* a stream that starts empty takes its first timestamp from Offsets
            /\ (raw = <<>> => gs[1] \in Offsets)
            /\ LET new == SubSeq(Extend(raw, gs), Len(raw) + 1, Len(raw) + n)
                   r   == MgrAppend(cs, new, cfg)
               IN /\ raw' = raw \o new /\ cs' = r.cs /\ ok' = r.ok
  /\ UNCHANGED <<cfg, pre>>

\* collapse_candles() called again with nothing new: must be the identity
Recollapse ==
  /\ ok
  /\ LET r == MgrTasks(cs, cfg) IN cs' = r.cs /\ ok' = r.ok
  /\ UNCHANGED <<cfg, pre, raw>>

Next == AppendChunk \/ Recollapse
Spec == Init /\ [][Next]_vars

(***************************************************************************)
(* Properties                                                              *)
(***************************************************************************)
NoError == ok

Times(s) == [i \in 1..Len(s) |-> s[i].ts]
\* (after a trim the first retained candle may be an inserted one: no predecessor to compare)
IsFillPos(s, i) == s[i].v = Zero /\ (i > 1 => s[i].o = s[i - 1].c) /\ s[i].h = s[i].o
                      /\ s[i].l = s[i].o /\ s[i].c = s[i].o
Suffix(s, n) == SubSeq(s, Len(s) - n + 1, Len(s))

\* (Heikin-Ashi with a lifespan is left to C15_Window: when the predecessor of the forming
\*  bucket has been trimmed away the recurrence restarts, and no property quantifies over
\*  that combination)
Master == (ok /\ ~(cfg.ha /\ cfg.life >= 0 /\ cfg.tf # 0)) =>
                /\ CoreSeq(cs) = ShownDef(raw, cfg)
                /\ [i \in 1..Len(cs) |-> CleanCore(cs[i])] = CleanDef(raw, cfg)

\* C03: collapsed candles are the non-empty right-closed buckets, in order, with
\* first/max/min/last/sum; strictly increasing stamps; volume conserved
C03_Resample ==
  (ok /\ cfg.tf # 0 /\ ~cfg.fill) =>
     LET rs == Resample(CoreSeq(raw), cfg.tf)
         cl == [i \in 1..Len(cs) |-> CleanCore(cs[i])]
     IN /\ Len(cl) <= Len(rs) /\ cl = Suffix(rs, Len(cl))
        /\ (cfg.life < 0 => Len(cl) = Len(rs))
        /\ \A i \in 2..Len(cs) : cs[i - 1].ts < cs[i].ts
        /\ (cfg.life < 0 /\ raw # <<>> =>
              SumR([i \in 1..Len(cl) |-> cl[i].v]) = SumR([i \in 1..Len(raw) |-> raw[i].v]))

\* C12: contiguous from first to last bucket; inserted candles flat at the previous close
\* with volume 0; the real buckets are those of plain resampling
C12_Fill ==
  (ok /\ cfg.fill) =>
     LET rs   == Resample(CoreSeq(raw), cfg.tf)
         cl   == [i \in 1..Len(cs) |-> CleanCore(cs[i])]
         real == SelectSeq(cl, LAMBDA x : \E j \in 1..Len(rs) : rs[j].ts = x.ts)
         ins  == {i \in 1..Len(cl) : ~\E j \in 1..Len(rs) : rs[j].ts = cl[i].ts}
     IN /\ \A i \in 2..Len(cs) : cs[i].ts = cs[i - 1].ts + cfg.tf
        /\ real = Suffix(rs, Len(real))
        /\ \A i \in ins : IsFillPos(cl, i)
        /\ (cfg.life < 0 /\ cs # <<>> => cs[1].ts = rs[1].ts /\ Last(cs).ts = Last(rs).ts)

\* C11: shown candles follow the HA recurrence over the (collapsed) raw candles, each
\* converted exactly once (tagged, clean values = raw), raw values recoverable
C11_HA ==
  (ok /\ cfg.ha /\ (cfg.life < 0 \/ cfg.tf = 0)) =>
     LET rs == Resample(CoreSeq(raw), cfg.tf)
         ha == HADef(rs)
     IN /\ CoreSeq(cs) = Suffix(ha, Len(cs))
        /\ \A i \in 1..Len(cs) : cs[i].tag = HAName /\ cs[i].cl # <<>>
        /\ [i \in 1..Len(cs) |-> CleanCore(cs[i])] = Suffix(rs, Len(cs))

\* C15 (window clause): exactly the candles not older than newest - lifespan, in order
C15_Window ==
  (ok /\ cfg.life >= 0) =>
     LET full == ShownDef(raw, [cfg EXCEPT !.life = -1])
     IN Times(cs) = SelectSeq(Times(full), LAMBDA t : t >= Last(full).ts - cfg.life)

\* readings never survive on a merged or converted candle, and the manager never invents any
NoReadings == \A i \in 1..Len(cs) : cs[i].ind = EmptyKV /\ cs[i].sub = EmptyKV

(***************************************************************************)
(* Emission for the spec -> code replay: one JSON line per distinct state  *)
(***************************************************************************)
RatJ(a) == <<a[1], a[2]>>
CandleJ(x) == [ts |-> x.ts, o |-> RatJ(x.o), h |-> RatJ(x.h), l |-> RatJ(x.l), c |-> RatJ(x.c),
               v |-> RatJ(x.v), tag |-> x.tag,
               cl |-> IF x.cl = <<>> THEN <<>>
                      ELSE <<RatJ(x.cl[1].o), RatJ(x.cl[1].h), RatJ(x.cl[1].l), RatJ(x.cl[1].c),
                             RatJ(x.cl[1].v), <<x.cl[1].ts, 1>> >>]
Emit ==
  EmitOn => PrintT("EMIT " \o ToJson(
     [cfg |-> [tf |-> cfg.tf, fill |-> cfg.fill, life |-> cfg.life, ha |-> cfg.ha],
      pre |-> pre, ok |-> ok,
      raw |-> [i \in 1..Len(raw) |-> CandleJ(raw[i])],
      exp |-> [i \in 1..Len(cs) |-> CandleJ(cs[i])]]))

Bound == TLCGet("level") <= MaxLen + 2
=============================================================================
