------------------------------ MODULE MC_Engine ------------------------------
(***************************************************************************)
(* Bounded exhaustive model of the engine: a candle manager (with or       *)
(* without a collapsing timeframe) carrying up to two indicators drawn     *)
(* from a menu of real kinds (nested helpers, managed series, recursive    *)
(* and windowed formulas), driven by every interleaving of                 *)
(*   append(1..2 candles) / calculate / purge / recalculate /              *)
(*   calculate_index / remove                                              *)
(* over every stream of a small candle alphabet.  Arithmetic is exact.     *)
(* Properties: C01 (state = batch whenever nothing is pending), C02        *)
(* (closed candles never change on append), C07 (an append computes only   *)
(* the new positions), C13 (operations aimed at one indicator leave the    *)
(* other column alone), C14 (idempotence; convergence to batch).           *)
(***************************************************************************)
EXTENDS Engine, TLC, FiniteSets

CONSTANTS TF, MaxLen, MaxOps
DevMerge == {"merge_keeps_readings"}

Cfg(kind, name, p, p2, p3) ==
  [kind |-> kind, name |-> name, mg |-> 1, rv |-> -1, p |-> p, p2 |-> p2, p3 |-> p3,
   in |-> Ref("close"), m |-> <<2, 1>>, cv |-> NoneV, fn |-> "", in2 |-> Ref("")]
Menu == << Cfg("EMA", "EMA_2", 2, 0, 0), Cfg("SMA", "SMA_2", 2, 0, 0), Cfg("ATR", "ATR_2", 2, 0, 0),
           Cfg("RSI", "RSI_2", 2, 0, 0), Cfg("STOCH", "STOCH_2", 2, 2, 2), Cfg("OBV", "OBV", 0, 0, 0) >>
Pairs == {<<1, 3>>, <<2, 4>>, <<3, 5>>, <<4, 6>>, <<5, 1>>, <<6, 2>>}

\* candle alphabet: rising, falling with a gap, flat -- (o, h, l, c, v)
Sym == << <<10, 12, 9, 11, 2>>, <<14, 14, 8, 9, 3>>, <<11, 11, 11, 11, 0>> >>
MkSym(k, ts) == MkCandle(ts, R(Sym[k][1]), R(Sym[k][2]), R(Sym[k][3]), R(Sym[k][4]), R(Sym[k][5]))

VARIABLES mcfg, raw, st, reg, pend, nops, last
vars == <<mcfg, raw, st, reg, pend, nops, last>>
\* st = [cs, work]; reg = sequence of Menu indices; pend = set of Menu indices with readings
\* pending (purged or never calculated); last = the last step [op, n = Menu index aimed at, i = position]

Op(o, n, i) == [op |-> o, n |-> n, i |-> i]
Regs == [k \in 1..Len(reg) |-> Menu[reg[k]]]
CalcAll(s, ns) ==
  LET RECURSIVE Go(_, _)
      Go(x, k) == IF k > Len(ns) THEN x ELSE Go(Calculate(x, Menu[ns[k]]), k + 1)
  IN Go(s, 1)
Bare(cs) == [i \in 1..Len(cs) |-> [cs[i] EXCEPT !.ind = EmptyKV, !.sub = EmptyKV]]

\* manager configurations explored (MC_EngineEmit widens this, the menu, the pairs and the alphabet)
MCfgs == {MkCfg(0, FALSE, -1, FALSE), MkCfg(TF, FALSE, -1, FALSE), MkCfg(TF, TRUE, -1, FALSE)}
ChunkMax == 2

Init ==
  /\ mcfg \in MCfgs
  /\ \E pr \in Pairs : reg = <<pr[1], pr[2]>>
  /\ raw = <<>>
  /\ st = [cs |-> <<>>, work |-> {}]
  /\ pend = {}
  /\ nops = 0
  /\ last = Op("init", 0, 0)

AppendStep ==
  /\ \E n \in 1..ChunkMax : \E ks \in [1..n -> 1..Len(Sym)] : \E gs \in [1..n -> {1, 2}] :
       /\ Len(raw) + n <= MaxLen
       /\ LET t0  == IF raw = <<>> THEN 0 ELSE Last(raw).ts
              RECURSIVE Off(_)
              Off(q) == IF q = 0 THEN 0 ELSE Off(q - 1) + gs[q]
              new == [q \in 1..n |-> MkSym(ks[q], t0 + Off(q))]
              m   == MgrAppend(st.cs, new, mcfg)
          IN /\ m.ok
             /\ raw' = raw \o new
             /\ st' = CalcAll([cs |-> m.cs, work |-> {}], reg)
  /\ pend' = {}
  /\ last' = Op("append", 0, 0)
  /\ UNCHANGED <<mcfg, reg, nops>>

Maint ==
  /\ nops < MaxOps /\ Len(st.cs) > 0
  /\ nops' = nops + 1
  /\ \E k \in 1..Len(reg) :
       LET n == reg[k]  c == Menu[n] IN
       \/ /\ st' = Calculate([st EXCEPT !.work = {}], c) /\ pend' = pend \ {n} /\ last' = Op("calculate", n, 0)
          /\ UNCHANGED reg
       \/ /\ st' = [cs |-> Purge(st.cs, c), work |-> {}] /\ pend' = pend \cup {n} /\ last' = Op("purge", n, 0)
          /\ UNCHANGED reg
       \/ /\ st' = Calculate([cs |-> Purge(st.cs, c), work |-> {}], c) /\ pend' = pend \ {n}
          /\ last' = Op("recalculate", n, 0) /\ UNCHANGED reg
       \* (C14's precondition: the position's predecessors are computed -- under a lifespan the front of
       \*  the list has lost them, recomputing there is outside every property)
       \/ /\ n \notin pend
          /\ \E i \in 1..Len(st.cs) : /\ (mcfg.life >= 0 => i - 1 >= Warm(c))
                                       /\ st' = CalculateIndex([st EXCEPT !.work = {}], c, i)
                                       /\ last' = Op("calculate_index", n, i)
          /\ pend' = pend /\ UNCHANGED reg
       \/ /\ Len(reg) > 1
          /\ st' = [cs |-> Purge(st.cs, c), work |-> {}]
          /\ reg' = SelectSeq(reg, LAMBDA x : x # n) /\ pend' = pend \ {n} /\ last' = Op("remove", n, 0)
  /\ UNCHANGED <<mcfg, raw>>

Next == AppendStep \/ Maint
Spec == Init /\ [][Next]_vars

(***************************************************************************)
(* Properties                                                              *)
(***************************************************************************)
\* C01 / C14: whenever no indicator has pending readings the state is exactly the batch state
\* of the definitional candle list -- after any history of appends and maintenance calls
C01_IncEqBatch ==
  pend = {} =>
     LET shown == ShownDef(raw, mcfg)
     IN /\ CoreSeq(st.cs) = shown
        /\ \A k \in 1..Len(reg) :
              Column(st.cs, Menu[reg[k]].name) = Column(Batch(st.cs, Regs), Menu[reg[k]].name)

\* C14: calculate() again changes nothing
C14_Idempotent ==
  \A k \in 1..Len(reg) : reg[k] \notin pend => CsEq(Calculate(st, Menu[reg[k]]).cs, st.cs)

\* C02: an append never changes a closed candle (all but the forming bucket of a timeframe)
C02_NoRepaint ==
  (last'.op = "append" /\ pend = {}) =>
     LET n == Len(st.cs) - (IF mcfg.tf # 0 THEN 1 ELSE 0)
     IN \A i \in 1..n : i <= Len(st'.cs) /\ CsEq(<<st'.cs[i]>>, <<st.cs[i]>>)

\* C07: an append evaluates layer functions only at positions that are new or re-merged
C07_BoundedWork ==
  \* ("after warm-up": with a single candle the resume index is the candle itself)
  LET keep == Len(st.cs) - (IF mcfg.tf # 0 THEN 1 ELSE 0)
  IN (last'.op = "append" /\ pend = {} /\ keep >= 2) => \A w \in st'.work : w[2] > keep

\* C13: a call aimed at one indicator leaves the column of the other untouched
C13_NoInterference ==
  (last'.op \in {"purge", "recalculate", "calculate_index", "calculate"} /\ Len(reg) = 2 /\ reg' = reg) =>
     \E k \in 1..2 : Column(st'.cs, Menu[reg[k]].name) = Column(st.cs, Menu[reg[k]].name)

\* C14: recalculate reproduces what it replaced; calculate_index reproduces the reading
C14_Reproduce ==
  (last'.op \in {"recalculate", "calculate_index"} /\ pend = {}) => CsEq(st'.cs, st.cs)

C02_Action == [][C02_NoRepaint]_vars
C07_Action == [][C07_BoundedWork]_vars
C13_Action == [][C13_NoInterference]_vars
C14_Action == [][C14_Reproduce]_vars

Bound == TLCGet("level") <= MaxLen + MaxOps + 2
=============================================================================
