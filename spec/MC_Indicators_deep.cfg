SPECIFICATION Spec
CONSTANTS
  MaxLen = 6
INVARIANT DefsAgree
INVARIANT SDAgree
INVARIANT StructOK
CHECK_DEADLOCK FALSE
