-------------------------------- MODULE Defs --------------------------------
(***************************************************************************)
(* Definitional ("textbook") forms of the indicators, computed from the    *)
(* raw candles only: window formulas, seed + recurrence, cumulative sums.  *)
(* Nothing here reads a stored reading.  MC_Indicators checks that the     *)
(* engine driven by the layer functions F (the ones the recorded traces    *)
(* are validated with) produces exactly these columns on every stream of a *)
(* small alphabet -- which is what turns per-layer conformance of the code *)
(* into "the readings equal their definitions" (C04, C05, C06).            *)
(* A column is a sequence of values (NoneV where there is no reading).     *)
(* Zero-denominator conventions are those of the repaired code.            *)
(***************************************************************************)
EXTENDS Engine

IsQ(v) == v.t = "q"
Col(cs, f) == [i \in 1..Len(cs) |-> QV(RawField(cs[i], f))]
NoneCol(n) == [i \in 1..n |-> NoneV]
AllQ(x, a, b) == a >= 1 /\ \A j \in a..b : IsQ(x[j])
Nums(x, a, b) == [j \in 1..(b - a + 1) |-> NumOf(x[a + j - 1])]

\* pointwise combination of numeric columns
Map2(x, y, Op(_, _)) ==
  [i \in 1..Len(x) |-> IF IsQ(x[i]) /\ IsQ(y[i]) THEN QV(Op(NumOf(x[i]), NumOf(y[i]))) ELSE NoneV]

\* window mean of the last p inputs
SMACol(x, p) == [i \in 1..Len(x) |-> IF AllQ(x, i - p + 1, i) THEN QV(Div(SumR(Nums(x, i - p + 1, i)), R(p))) ELSE NoneV]

WMACol(x, p) ==
  [i \in 1..Len(x) |->
     IF AllQ(x, i - p + 1, i)
     THEN QV(Div(SumR([k \in 1..p |-> Mul(NumOf(x[i - k + 1]), R(p - k + 1))]), Q(p * (p + 1), 2)))
     ELSE NoneV]

\* seed at the first full window, then r[t] = a*x[t] + (1-a)*r[t-1]
RECURSIVE RecurCol(_, _, _, _, _)
RecurCol(x, p, a, Seed(_, _, _), out) ==
  LET i == Len(out) + 1
  IN IF i > Len(x) THEN out
     ELSE LET v == IF i > 1 /\ IsQ(out[i - 1]) /\ IsQ(x[i])
                   THEN QV(Add(Mul(a, NumOf(x[i])), Mul(Sub(One, a), NumOf(out[i - 1]))))
                   ELSE IF AllQ(x, i - p + 1, i) THEN QV(Seed(x, p, i)) ELSE NoneV
          IN RecurCol(x, p, a, Seed, Append(out, v))

MeanSeed(x, p, i) == Div(SumR(Nums(x, i - p + 1, i)), R(p))
DecaySeed(x, p, i) ==
  LET a == Q(1, p)
      w == [k \in 1..p |-> PowR(Sub(One, a), k - 1)]
  IN Div(SumR([k \in 1..p |-> Mul(w[k], NumOf(x[i - k + 1]))]), SumR(w))

EMACol(x, p, sm) == RecurCol(x, p, Div(sm, R(p + 1)), MeanSeed, <<>>)
RMACol(x, p) == RecurCol(x, p, Q(1, p), DecaySeed, <<>>)
WilderCol(x, p) == RecurCol(x, p, Q(1, p), MeanSeed, <<>>)          \* ATR-style: mean seed

VWMACol(cs, p) ==
  [i \in 1..Len(cs) |->
     IF i - p + 1 < 1 THEN NoneV
     ELSE LET vol == SumR([k \in 1..p |-> cs[i - k + 1].v])
              pv  == SumR([k \in 1..p |-> Mul(cs[i - k + 1].c, cs[i - k + 1].v)])
          IN IF IsZero(vol) THEN QV(Div(SumR([k \in 1..p |-> cs[i - k + 1].c]), R(p)))
             ELSE QV(Div(pv, vol))]

TRCol(cs) ==
  [i \in 1..Len(cs) |-> IF i < 2 THEN NoneV
     ELSE QV(Max(Sub(cs[i].h, cs[i].l), Max(Abs(Sub(cs[i].h, cs[i - 1].c)), Abs(Sub(cs[i].l, cs[i - 1].c)))))]
ATRCol(cs, p) == WilderCol(TRCol(cs), p)

\* population variance of the last p inputs; the library shows it from the (p+1)-th input on
VarCol(x, p) ==
  [i \in 1..Len(x) |->
     IF AllQ(x, i - p, i)
     THEN LET w == Nums(x, i - p + 1, i)  mu == Div(SumR(w), R(p))
          IN QV(Div(SumR([k \in 1..p |-> Mul(Sub(w[k], mu), Sub(w[k], mu))]), R(p)))
     ELSE NoneV]

WinMax(x, a, b) == MaxR(Nums(x, MaxI(1, a), b))
WinMin(x, a, b) == MinR(Nums(x, MaxI(1, a), b))

Dict3(ks, a, b, c) == [i \in 1..Len(a) |-> DictV(ks, <<a[i], b[i], c[i]>>)]

DonchianCol(cs, p) ==
  LET hi == Col(cs, "high")  lo == Col(cs, "low")
  IN [i \in 1..Len(cs) |->
        IF i < p THEN NoneDict(DCKeys)
        ELSE LET u == WinMax(hi, i - p + 1, i)  l == WinMin(lo, i - p + 1, i)
             IN DictV(DCKeys, <<QV(l), QV(Div(Add(u, l), R(2))), QV(u)>>)]
HLCol(cs, p) ==
  LET hi == Col(cs, "high")  lo == Col(cs, "low")
  IN [i \in 1..Len(cs) |-> DictV(<<"low", "high">>, <<QV(WinMin(lo, i - p, i)), QV(WinMax(hi, i - p, i))>>)]
HLACol(cs) == [i \in 1..Len(cs) |-> QV(Div(Add(cs[i].h, cs[i].l), R(2)))]

KCCol(cs, x, p, m) ==
  LET e == EMACol(x, p, R(2))  a == ATRCol(cs, p)
  IN [i \in 1..Len(cs) |->
        IF IsQ(e[i]) /\ IsQ(a[i])
        THEN DictV(KCKeys, <<QV(Sub(NumOf(e[i]), Mul(m, NumOf(a[i])))), e[i],
                             QV(Add(NumOf(e[i]), Mul(m, NumOf(a[i]))))>>)
        ELSE NoneDict(KCKeys)]

\* Supertrend: bands HL2 +/- m*ATR, ratcheting in the trend direction, flipping when the close
\* breaks the previous band.  state = <<upper, lower, dir>> of the previous candle or <<>>
RECURSIVE STFrom(_, _, _, _, _)
STFrom(cs, atr, m, prev, out) ==
  LET i == Len(out) + 1
  IN IF i > Len(cs) THEN out
     ELSE IF ~IsQ(atr[i])
       THEN STFrom(cs, atr, m, <<>>, Append(out, DictV(STKeys, <<NoneV, QV(R(1)), NoneV, NoneV>>)))
     ELSE LET hl  == Div(Add(cs[i].h, cs[i].l), R(2))
              mid == Mul(m, NumOf(atr[i]))
              up0 == Add(hl, mid)
              lo0 == Sub(hl, mid)
              dir == IF prev = <<>> THEN 1
                     ELSE IF Gt(cs[i].c, prev[1]) THEN 1
                     ELSE IF Lt(cs[i].c, prev[2]) THEN -1 ELSE prev[3]
              held == prev # <<>> /\ ~Gt(cs[i].c, prev[1]) /\ ~Lt(cs[i].c, prev[2])
              lo  == IF held /\ dir = 1 /\ Lt(lo0, prev[2]) THEN prev[2] ELSE lo0
              up  == IF held /\ dir = -1 /\ Gt(up0, prev[1]) THEN prev[1] ELSE up0
              v   == IF dir = 1 THEN DictV(STKeys, <<QV(lo), QV(R(1)), QV(lo), NoneV>>)
                     ELSE DictV(STKeys, <<QV(up), QV(R(-1)), NoneV, QV(up)>>)
          IN STFrom(cs, atr, m, <<up, lo, dir>>, Append(out, v))
SupertrendCol(cs, p, m) == STFrom(cs, ATRCol(cs, p), m, <<>>, <<>>)

\* Counter: length of the current run of candles on which the input equals the counted value
RECURSIVE RunFrom(_, _, _)
RunFrom(x, cv, out) ==
  LET i == Len(out) + 1
  IN IF i > Len(x) THEN out
     ELSE LET pc == IF i = 1 THEN Zero ELSE NumOf(out[i - 1])
          IN RunFrom(x, cv, Append(out, IF x[i].t = "n" THEN QV(pc)
                                         ELSE IF PyEq(cv, x[i]) THEN QV(Add(pc, One)) ELSE QV(Zero)))
CounterCol(x, cv) == RunFrom(x, cv, <<>>)

\* RSI: Wilder-smoothed average gain / loss, 100 when there are no losses
RECURSIVE RSIFrom(_, _, _, _)
RSIFrom(x, p, prev, out) ==      \* prev = <<gain, loss>> or <<>>
  LET i == Len(out) + 1
  IN IF i > Len(x) THEN out
     ELSE IF prev # <<>>
       THEN LET ch == Sub(NumOf(x[i]), NumOf(x[i - 1]))
                g  == Div(Add(Mul(prev[1], R(p - 1)), IF Gt(ch, Zero) THEN ch ELSE Zero), R(p))
                l  == Div(Add(Mul(prev[2], R(p - 1)), IF Lt(ch, Zero) THEN Neg(ch) ELSE Zero), R(p))
            IN RSIFrom(x, p, <<g, l>>, Append(out, RSIOf(g, l)))
     ELSE IF AllQ(x, i - p, i)
       THEN LET chs == [k \in 1..p |-> Sub(NumOf(x[i - p + k]), NumOf(x[i - p + k - 1]))]
                g == Div(SumR([k \in 1..p |-> IF Gt(chs[k], Zero) THEN chs[k] ELSE Zero]), R(p))
                l == Div(SumR([k \in 1..p |-> IF Lt(chs[k], Zero) THEN Neg(chs[k]) ELSE Zero]), R(p))
            IN RSIFrom(x, p, <<g, l>>, Append(out, RSIOf(g, l)))
     ELSE RSIFrom(x, p, <<>>, Append(out, NoneV))
RSICol(x, p) == RSIFrom(x, p, <<>>, <<>>)

MACDCol(x, pf, ps, pg) ==
  LET line == Map2(EMACol(x, pf, R(2)), EMACol(x, ps, R(2)), Sub)
      sig  == EMACol(line, pg, R(2))
  IN [i \in 1..Len(x) |->
        IF ~IsQ(line[i]) THEN NoneDict(MACDKeys)
        ELSE DictV(MACDKeys, <<line[i], sig[i],
                               IF IsQ(sig[i]) THEN QV(Sub(NumOf(line[i]), NumOf(sig[i]))) ELSE NoneV>>)]

ROCCol(x, p) ==
  [i \in 1..Len(x) |->
     IF AllQ(x, i - p, i) /\ ~IsZero(NumOf(x[i - p]))
     THEN QV(Mul(Div(Sub(NumOf(x[i]), NumOf(x[i - p])), NumOf(x[i - p])), Hundred))
     ELSE IF AllQ(x, i - p, i) THEN QV(Zero) ELSE NoneV]

StochCol(cs, x, p, pk, pd) ==
  LET hi == Col(cs, "high")  lo == Col(cs, "low")
      st == [i \in 1..Len(cs) |->
               IF i < p THEN NoneV
               ELSE LET h == WinMax(hi, i - p + 1, i)  l == WinMin(lo, i - p + 1, i)
                    IN IF h = l THEN QV(Zero) ELSE QV(Mul(Div(Sub(NumOf(x[i]), l), Sub(h, l)), Hundred))]
      k  == SMACol(st, pk)
      d  == SMACol(k, pd)
  IN [i \in 1..Len(cs) |-> IF IsQ(st[i]) THEN DictV(SKKeys, <<st[i], k[i], d[i]>>) ELSE NoneDict(SKKeys)]

TSICol(x, p, sp) ==
  LET mom == [i \in 1..Len(x) |-> IF i < 2 THEN NoneV ELSE QV(Sub(NumOf(x[i]), NumOf(x[i - 1])))]
      amo == [i \in 1..Len(x) |-> IF i < 2 THEN NoneV ELSE QV(Abs(Sub(NumOf(x[i]), NumOf(x[i - 1]))))]
      s2  == EMACol(EMACol(mom, p, R(2)), sp, R(2))
      a2  == EMACol(EMACol(amo, p, R(2)), sp, R(2))
  IN [i \in 1..Len(x) |->
        IF ~IsQ(a2[i]) THEN NoneV
        ELSE IF IsZero(NumOf(a2[i])) THEN QV(Zero)
        ELSE QV(Mul(Hundred, Div(NumOf(s2[i]), NumOf(a2[i]))))]

\* bars since the most recent extreme within the last p + 1 candles
RECURSIVE Since(_, _, _, _, _)
Since(x, i, k, lim, hi) ==     \* smallest offset k..lim whose value is the window extreme
  LET ext == IF hi THEN WinMax(x, i - lim, i) ELSE WinMin(x, i - lim, i)
  IN IF NumOf(x[i - k]) = ext THEN k ELSE Since(x, i, k + 1, lim, hi)
AroonCol(cs, p) ==
  LET hi == Col(cs, "high")  lo == Col(cs, "low")
  IN [i \in 1..Len(cs) |->
        IF i < p + 1 THEN NoneDict(ARKeys)
        ELSE LET u == Mul(Q(p - Since(hi, i, 0, p, TRUE), p), Hundred)
                 d == Mul(Q(p - Since(lo, i, 0, p, FALSE), p), Hundred)
             IN DictV(ARKeys, <<QV(u), QV(d), QV(Sub(u, d))>>)]

ADXCol(cs, p, ps) ==
  LET pos == [i \in 1..Len(cs) |->
               LET j == MaxI(1, i - 1)  up == Sub(cs[i].h, cs[j].h)  dn == Sub(cs[j].l, cs[i].l)
               IN QV(IF Gt(up, dn) /\ Gt(up, Zero) THEN up ELSE Zero)]
      neg == [i \in 1..Len(cs) |->
               LET j == MaxI(1, i - 1)  up == Sub(cs[i].h, cs[j].h)  dn == Sub(cs[j].l, cs[i].l)
               IN QV(IF Gt(dn, up) /\ Gt(dn, Zero) THEN dn ELSE Zero)]
      sp  == RMACol(pos, p)
      sn  == RMACol(neg, p)
      atr == ATRCol(cs, p)
      dip == [i \in 1..Len(cs) |-> IF IsQ(atr[i]) /\ IsQ(sp[i])
                THEN (IF IsZero(NumOf(atr[i])) THEN QV(Zero) ELSE QV(Mul(Div(Hundred, NumOf(atr[i])), NumOf(sp[i]))))
                ELSE NoneV]
      din == [i \in 1..Len(cs) |-> IF IsQ(atr[i]) /\ IsQ(sn[i])
                THEN (IF IsZero(NumOf(atr[i])) THEN QV(Zero) ELSE QV(Mul(Div(Hundred, NumOf(atr[i])), NumOf(sn[i]))))
                ELSE NoneV]
      dx  == [i \in 1..Len(cs) |-> IF IsQ(dip[i])
                THEN (LET s == Add(NumOf(dip[i]), NumOf(din[i]))
                      IN IF IsZero(s) THEN QV(Zero)
                         ELSE QV(Div(Mul(Hundred, Abs(Sub(NumOf(dip[i]), NumOf(din[i])))), s)))
                ELSE NoneV]
      adx == RMACol(dx, ps)
  IN [i \in 1..Len(cs) |-> IF IsQ(dip[i]) THEN DictV(ADXKeys, <<adx[i], dip[i], din[i]>>) ELSE NoneDict(ADXKeys)]

RECURSIVE OBVFrom(_, _)
OBVFrom(cs, out) ==
  LET i == Len(out) + 1
  IN IF i > Len(cs) THEN out
     ELSE IF i = 1 THEN OBVFrom(cs, <<QV(cs[1].v)>>)
     ELSE LET p == NumOf(out[i - 1])
          IN OBVFrom(cs, Append(out, IF cs[i].c = cs[i - 1].c THEN QV(p)
                                     ELSE IF Gt(cs[i].c, cs[i - 1].c) THEN QV(Add(p, cs[i].v))
                                     ELSE QV(Sub(p, cs[i].v))))
OBVCol(cs) == OBVFrom(cs, <<>>)

VWAPCol(cs) ==
  [i \in 1..Len(cs) |->
     LET pv  == SumR([k \in 1..i |-> Mul(cs[k].v, Div(Add(Add(cs[k].h, cs[k].l), cs[k].c), R(3)))])
         vol == SumR([k \in 1..i |-> cs[k].v])
     IN IF IsZero(vol) THEN QV(pv) ELSE QV(Div(pv, vol))]

HMACol(x, p) ==
  LET raw == Map2(WMACol(x, p \div 2), WMACol(x, p), LAMBDA a, b : Sub(Mul(R(2), a), b))
  IN WMACol(raw, ISqrt(p))

\* the definitional column of a configuration c over raw candles cs ("skip" = not defined here)
DefCol(c, cs) ==
  LET k == c.kind
      x == IF c.in.n \in RawFields THEN Col(cs, c.in.n) ELSE NoneCol(Len(cs))
  IN CASE k = "SMA" -> SMACol(x, c.p)
       [] k = "EMA" -> EMACol(x, c.p, <<c.m[1], c.m[2]>>)
       [] k = "RMA" -> RMACol(x, c.p)
       [] k = "WMA" -> WMACol(x, c.p)
       [] k = "VWMA" -> VWMACol(cs, c.p)
       [] k = "HMA" -> HMACol(x, c.p)
       [] k = "TR" -> TRCol(cs)
       [] k = "ATR" -> ATRCol(cs, c.p)
       [] k = "KC" -> KCCol(cs, x, c.p, <<c.m[1], c.m[2]>>)
       [] k = "DONCHIAN" -> DonchianCol(cs, c.p)
       [] k = "HL" -> HLCol(cs, c.p)
       [] k = "HLA" -> HLACol(cs)
       [] k = "Supertrend" -> SupertrendCol(cs, c.p, <<c.m[1], c.m[2]>>)
       [] k = "Counter" -> CounterCol(x, c.cv)
       [] k = "RSI" -> RSICol(x, c.p)
       [] k = "MACD" -> MACDCol(x, c.p, c.p2, c.p3)
       [] k = "ROC" -> ROCCol(x, c.p)
       [] k = "STOCH" -> StochCol(cs, x, c.p, c.p2, c.p3)
       [] k = "TSI" -> TSICol(x, c.p, c.p2)
       [] k = "AROON" -> AroonCol(cs, c.p)
       [] k = "ADX" -> ADXCol(cs, c.p, c.p2)
       [] k = "OBV" -> OBVCol(cs)
       [] k = "VWAP" -> VWAPCol(cs)

\* the helper columns of the square-root kinds: rolling mean and population variance
SDDataCol(x, p) ==
  LET m == SMACol(x, p)  v == VarCol(x, p)
  IN [i \in 1..Len(x) |-> IF IsQ(v[i]) THEN DictV(<<"mean", "variance">>, <<m[i], v[i]>>) ELSE NoneV]
=============================================================================
