----------------------------- MODULE MC_Analysis -----------------------------
(***************************************************************************)
(* C16 / C17 on the specification itself: for every candle list up to a    *)
(* small length with readings from {None, 1, 2, 3}, every movement         *)
(* function, every valid index and length,                                 *)
(*   Eval(cs, i) = Eval(Prefix(cs, i), latest) = Eval(cs, i - n)           *)
(* (causal and index-consistent), predicates do not change when every      *)
(* reading is doubled or shifted, and a missing reading never makes a      *)
(* predicate true.  Patterns: the same over a neutral history followed by  *)
(* shaped candles.                                                         *)
(***************************************************************************)
EXTENDS Analysis, TLC

CONSTANTS MaxLen, MaxPat
DevWraps == {"analysis_wraps"}

Vals == {NoneV, QV(R(1)), QV(R(2)), QV(R(3))}
Mk(a, b, k) ==
  [MkCandle(k, R(10), R(12), R(9), R(10 + (k % 3)), R(1))
     EXCEPT !.ind = [k |-> <<"a", "b">>, v |-> <<a, b>>]]

\* candle shapes appended after a neutral history (o, h, l, c): neutral up, neutral down, doji,
\* hammer-like, inverted-hammer-like, long body, gap up doji
Shapes == << <<20, 23, 19, 22>>, <<22, 23, 19, 20>>, <<21, 22, 20, 21>>, <<19, 20, 14, 20>>,
             <<17, 23, 17, 18>>, <<20, 29, 19, 28>>, <<30, 31, 29, 30>> >>
MkShape(s, k) == MkCandle(k, R(Shapes[s][1]), R(Shapes[s][2]), R(Shapes[s][3]), R(Shapes[s][4]), R(5))
Neutral(n) == [k \in 1..n |-> MkShape(IF k % 2 = 1 THEN 1 ELSE 2, k)]

VARIABLES cs, mode
vars == <<cs, mode>>

Init == (cs = <<>> /\ mode = "move") \/ (cs = Neutral(10) /\ mode = "pat")
Next ==
  \/ /\ mode = "move" /\ Len(cs) < MaxLen
     /\ \E a \in Vals, b \in Vals : cs' = Append(cs, Mk(a, b, Len(cs) + 1))
     /\ UNCHANGED mode
  \/ /\ mode = "pat" /\ Len(cs) < 10 + MaxPat
     /\ \E s \in 1..Len(Shapes) : cs' = Append(cs, MkShape(s, Len(cs) + 1))
     /\ UNCHANGED mode
Spec == Init /\ [][Next]_vars

MoveFns == {"above", "below", "rising", "falling", "mean_rising", "mean_falling", "highest", "lowest",
            "highestbar", "lowestbar", "value_range", "cross", "crossover", "crossunder", "positive", "negative"}
PatFns == {"doji", "dojistar", "hammer", "inv_hammer"}
Qy(fn, len, i) == [fn |-> fn, a |-> Ref("a"), b |-> Ref("b"), len |-> len, i |-> i]
Prefix(s, i0) == SubSeq(s, 1, i0 + 1)

Consistent(fn, len) ==
  LET n == Len(cs)
  IN \A i0 \in 0..(n - 1) :
        /\ Eval(cs, Qy(fn, len, i0)) = Eval(cs, Qy(fn, len, i0 - n))
        /\ Eval(cs, Qy(fn, len, i0)) = Eval(Prefix(cs, i0), Qy(fn, len, NOIDX))

C16_Causal ==
  /\ mode = "move" => \A fn \in MoveFns, len \in 1..3 : Consistent(fn, len)
  /\ mode = "pat" => \A fn \in PatFns, len \in {0, 1, 3, 12} : Consistent(fn, len)

\* scaling / shifting every reading leaves the predicates unchanged (C17)
Scaled(s, m, d) ==
  [i \in 1..Len(s) |->
     [s[i] EXCEPT !.ind.v = [q \in 1..Len(s[i].ind.v) |->
                               IF s[i].ind.v[q].t = "q" THEN QV(Add(Mul(NumOf(s[i].ind.v[q]), R(m)), R(d)))
                               ELSE s[i].ind.v[q]]]]
Predicates == {"above", "below", "rising", "falling", "mean_rising", "mean_falling", "cross", "crossover",
               "crossunder", "highestbar", "lowestbar"}
C17_Invariant ==
  mode = "move" =>
     \A fn \in Predicates, len \in 1..3, i0 \in 0..(Len(cs) - 1) :
        /\ Eval(cs, Qy(fn, len, i0)) = Eval(Scaled(cs, 2, 0), Qy(fn, len, i0))
        /\ Eval(cs, Qy(fn, len, i0)) = Eval(Scaled(cs, 1, 1), Qy(fn, len, i0))

\* a missing reading at the evaluated candle never makes a predicate true (C17)
C17_MissingNeverTrue ==
  mode = "move" =>
     \A fn \in {"above", "below", "rising", "falling", "mean_rising", "mean_falling"}, len \in 1..3,
        i0 \in 0..(Len(cs) - 1) :
        At(cs, Ref("a"), i0).t = "n" => Eval(cs, Qy(fn, len, i0)) = Bools(FALSE)
=============================================================================
