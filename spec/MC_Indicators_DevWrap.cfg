SPECIFICATION Spec
CONSTANTS
  MaxLen = 4
  Dev <- DevWrap
INVARIANT DefsAgree
CHECK_DEADLOCK FALSE
