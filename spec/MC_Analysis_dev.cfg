SPECIFICATION Spec
CONSTANTS
  MaxLen = 3
  MaxPat = 1
  Dev <- DevWraps
INVARIANT C16_Causal
CHECK_DEADLOCK FALSE
