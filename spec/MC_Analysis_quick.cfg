SPECIFICATION Spec
CONSTANTS
  MaxLen = 3
  MaxPat = 2
INVARIANT C16_Causal
INVARIANT C17_Invariant
INVARIANT C17_MissingNeverTrue
CHECK_DEADLOCK FALSE
